"""What a document *says* through its public read API, model by model and attribute by attribute.

Used as a second digest next to walker.digest: the structural digest walks the raw tree (vars()), this one goes through every
public non-callable attribute (value-level properties, list / mapping views, raw_* node properties, custom properties), i.e.
through whatever caches the library keeps behind them. Two trees that print the same text and have the same structure must also
read the same through this API; a stale cached view or getter makes the edited tree differ from a fresh parse of its own text."""
import collections.abc
import datetime
import decimal

from . import walker
from autobean_refactor.models import base as mbase
from autobean_refactor.models.internal.repeated import Repeated

SKIP = {
    'token_store', 'tokens', 'first_token', 'last_token', 'store_handle', 'size',
    'indent_by',                       # plain configuration, not derived from the text
    'claimed',
    'string0', 'raw_string0', 'string1', 'raw_string1', 'string2', 'raw_string2', 'raw_cost_components',
}
_NAMES: dict = {}


def _attr_names(cls, inline_comments=False):
    if (cls, inline_comments) not in _NAMES:
        out = []
        for a in dir(cls):
            if a.startswith('_') or a in SKIP or ('comment' in a and not (inline_comments and a == 'inline_comment')) or 'spacing' in a:
                continue        # attribution and spacing are not functions of the text alone (C14 / C17 judge them)
            d = None
            for k in cls.__mro__:
                if a in vars(k):
                    d = vars(k)[a]
                    break
            if d is None or isinstance(d, (classmethod, staticmethod)) or callable(d) and not hasattr(d, '__get__'):
                continue
            if callable(d) and not isinstance(d, property) and not hasattr(d, '__set__'):
                continue        # plain methods
            out.append(a)
        _NAMES[(cls, inline_comments)] = sorted(out)
    return _NAMES[(cls, inline_comments)]


def norm(v, depth=0):
    if v is None or isinstance(v, (bool, int, str)):
        return v
    if isinstance(v, decimal.Decimal):
        if not v.is_finite():
            return ('D', str(v))
        sign, digits, exp = v.as_tuple()        # the number, not its spelling: 1.2E+2 and 120 are the same value (no context rounding)
        digits = list(digits)
        while len(digits) > 1 and digits[-1] == 0:
            digits.pop()
            exp += 1
        if digits == [0]:
            sign, exp = 0, 0
        return ('D', sign, tuple(digits), exp)
    if isinstance(v, datetime.date):
        return ('date', v.isoformat())
    if isinstance(v, mbase.RawModel):
        return ('M', type(v).__name__, walker.digest(v))
    if depth > 4:
        return ('deep', type(v).__name__)
    if isinstance(v, collections.abc.Mapping):
        return ('map', tuple((norm(k, depth + 1), norm(x, depth + 1)) for k, x in v.items()))
    if isinstance(v, (set, frozenset)):
        return ('set', tuple(sorted(map(repr, v))))
    if isinstance(v, collections.abc.Iterable):
        return ('seq', tuple(norm(x, depth + 1) for x in v))
    return ('?', type(v).__name__)


def value_state(root, inline_comments=False):
    """[(path, class, attribute, normalised value)] for every tree model below root (repeated-list nodes excluded).
    inline_comments=True also reads `inline_comment` (exact text; only sound where no edit has put a comment in front of blanks
    that were already in the input - a freshly constructed model)."""
    out = []
    for path, m in walker.walk(root):
        if not isinstance(m, mbase.RawTreeModel) or isinstance(m, Repeated):
            continue
        for a in _attr_names(type(m), inline_comments):
            try:
                v = norm(getattr(m, a))
            except (decimal.DecimalException, ZeroDivisionError):
                v = ('arithmetic-error',)
            except NotImplementedError:
                continue
            out.append((path, type(m).__name__, a, v))
    return out


def first_difference(a, b):
    """None if equal, else (path, class, attr, value_a, value_b) of the first entry that differs (or a shape note)."""
    # aligned by document order of (class, attribute): list indexes inside paths count claimed comments, which a fresh parse may
    # attribute differently
    if len(a) != len(b) or [x[1:3] for x in a] != [x[1:3] for x in b]:
        return ('$', '?', 'shape', len(a), len(b))
    for x, y in zip(a, b):
        if x[3] != y[3]:
            return (x[0], x[1], x[2], x[3], y[3])
    return None
