"""Regenerates /verif/MANIFEST.json from the check modules present (run: python -m beanmon.manifest)."""
import importlib
import json
import os

from . import common

PROPS = [f'C{i:02d}' for i in range(1, 21)]
BASELINE_OFF = ('cd /repo && env -u AUTOBEAN_REFACTOR_VERIF /venv/bin/python -m pytest -ra -q -p no:cacheprovider --timeout=900 '
                '--continue-on-collection-errors --junitxml=/verif/out/baseline-off.junit.xml')


def main() -> None:
    checks, na = [], []
    for p in PROPS:
        try:
            mod = importlib.import_module(f'beanmon.checks.{p.lower()}')
        except ModuleNotFoundError:
            na.append({'property_id': p, 'reason': 'check not built yet (work in progress; runtime monitoring applies, see DESIGN.md section 5)'})
            continue
        checks.append({
            'property_id': p,
            'quick_cmd': f'./check {p} --tier quick',
            'thorough_cmd': f'./check {p} --tier thorough',
            'evidence_file': f'/verif/evidence/{p}.json',
            'replay_cmd_template': f'./check {p} --replay {{path}}',
            'engine': 'beanmon',
            'level_claimed': {
                'category': 'exploration',
                'text': getattr(mod, 'LEVEL_TEXT', None) or (
                    'Runtime monitoring: the real code is run under generated and hostile workloads while a reference-model '
                    'oracle checks every execution; the claim is "held on the executions counted in the evidence file", nothing more. '
                    + mod.RULE),
                'design_ref': f'DESIGN.md section 5, {p}',
            },
            'level_note': '; '.join(getattr(mod, 'ASSUMPTIONS', [])) or 'trusted base: CPython 3.12, lark, the harness oracles (DESIGN.md section 8)',
            'technique': getattr(mod, 'TECHNIQUE', 'runtime monitoring: reference-model oracle over generated executions'),
        })
    manifest = {
        'version': 1,
        'setup_cmd': '/venv/bin/python -m compileall -q beanmon >/dev/null; PYTHONPATH=/verif /venv/bin/python -c "import beanmon.runner, beanmon.walker; print(\'beanmon ok\')"',
        'hooks': {
            'guard': common.GUARD,
            'enable': 'no source hooks: monitors are bound onto class/module attributes from the harness process (the guard variable is '
                      'set for shard processes and only switches on the optional pytest plugin used by thorough workloads)',
            'baseline_off_cmd': BASELINE_OFF,
            'source_commits': [],
            'add_only': True,
        },
        'engines': [{
            'name': 'beanmon', 'path': '/verif/beanmon', 'serves_properties': [c['property_id'] for c in checks],
            'kind_free_text': 'hand-rolled runtime monitors (wrappers at the API boundary, shadow reference models, event logs) driven by '
                              'generated workloads in shard subprocesses',
        }],
        'checks': checks,
        'not_applicable': na,
        'notes': 'Exit 0 = held on everything explored; 1 = VIOLATION line with replay; 2 = INCONCLUSIVE (harness fault or reach gate). '
                 'Known findings and fixed defects: /verif/known_findings.json.',
    }
    with open(os.path.join(common.VERIF_ROOT, 'MANIFEST.json'), 'w') as f:
        json.dump(manifest, f, indent=1)
        f.write('\n')
    print(f'{len(checks)} checks, {len(na)} not_applicable')


if __name__ == '__main__':
    main()
