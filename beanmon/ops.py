"""Operation catalog and donor corpus: generates API edits (valid, syntax-preserving, or deliberately invalid) on a
parsed document, described uniformly so that the confinement (C03), tree (C05), re-parse (C06), view (C10), copy (C11)
and atomicity (C19) oracles can all be driven by the same histories.
"""
import collections
import copy
import re
import operator
import datetime
import decimal

from . import valuestate, common, gen, values, walker
from autobean_refactor import models
from autobean_refactor.models import base as mbase, internal, meta_value_internal, meta_item_internal
from autobean_refactor.models.internal import properties as props, value_properties as vprops
from autobean_refactor.models.internal.repeated import Repeated

D = decimal.Decimal

NODE_PROPS = (props.required_node_property, props.optional_node_property, props.unordered_node_property)
VALUE_PROPS = (vprops.required_value_property, vprops.optional_string_property, vprops.optional_indented_string_property,
               vprops.optional_decimal_property, vprops.optional_date_property, meta_value_internal.optional_meta_value_property)
RAW_LIST_PROPS = (props.repeated_node_property, internal.repeated_node_with_interleaving_comments_property)
FILTERED_PROPS = (vprops.repeated_filtered_node_property, meta_item_internal.repeated_raw_meta_item_property)
STRING_VIEW_PROPS = (vprops.repeated_string_property,)
META_PROPS = (meta_item_internal.repeated_meta_item_property,)

LIST_KINDS = ('raw_list', 'raw_list_comments', 'filtered', 'raw_meta', 'string_view', 'custom_view', 'meta')

SKIP_ATTRS = {
    'spacing_before', 'spacing_after', 'raw_spacing_before', 'raw_spacing_after',  # C17
    'indent_by', 'token_store', 'tokens', 'first_token', 'last_token',
    'string0', 'raw_string0', 'string1', 'raw_string1', 'string2', 'raw_string2',   # internal slots behind payee/narration
    'raw_cost_components',
}


def desc_of(cls, a):
    for k in cls.__mro__:
        if a in vars(k):
            return vars(k)[a]
    return None


def classify(d):
    if isinstance(d, props.cached_custom_property) and not isinstance(d, FILTERED_PROPS + STRING_VIEW_PROPS + META_PROPS):
        return 'custom_view'   # Custom.values
    if isinstance(d, props.required_node_property):
        return 'required_node'
    if isinstance(d, props.optional_node_property):
        return 'optional_node'
    if isinstance(d, props.unordered_node_property):
        return 'unordered_node'
    if isinstance(d, vprops.required_value_property):
        return 'required_value'
    if isinstance(d, VALUE_PROPS):
        return 'optional_value'
    if isinstance(d, internal.repeated_node_with_interleaving_comments_property):
        return 'raw_list_comments'
    if isinstance(d, props.repeated_node_property):
        return 'raw_list'
    if isinstance(d, meta_item_internal.repeated_meta_item_property):
        return 'meta'
    if isinstance(d, meta_item_internal.repeated_raw_meta_item_property):
        return 'raw_meta'
    if isinstance(d, vprops.repeated_filtered_node_property):
        return 'filtered'
    if isinstance(d, vprops.repeated_string_property):
        return 'string_view'
    if isinstance(d, props.custom_property):
        return 'custom_node'
    if isinstance(d, property) and d.fset is not None:
        return 'py_property'
    return None


_CATALOG = {}


def catalog(cls):
    """[(attr, descriptor, kind)] for every public settable / mutable-view attribute of a tree-model class."""
    if cls not in _CATALOG:
        out = []
        for a in dir(cls):
            if a.startswith('_') or a in SKIP_ATTRS:
                continue
            d = desc_of(cls, a)
            if d is None or isinstance(d, (classmethod, staticmethod)):
                continue
            k = classify(d)
            if k:
                out.append((a, d, k))
        _CATALOG[cls] = out
    return _CATALOG[cls]


def uncovered_attributes():
    """Public settable attributes the catalog has no generator for (reported in evidence, never silently ignored).
    Spacing accessors are C17's and are not listed."""
    spacing = {'spacing_before', 'spacing_after', 'raw_spacing_before', 'raw_spacing_after'}
    out = []
    for cls in models.TREE_MODELS.values():
        for a in dir(cls):
            if a.startswith('_') or a in spacing:
                continue
            d = desc_of(cls, a)
            if d is None or isinstance(d, (classmethod, staticmethod)) or not hasattr(d, '__set__'):
                continue
            if isinstance(d, property) and d.fset is None:
                continue
            if classify(d) is None or a in SKIP_ATTRS:
                out.append(f'{cls.__name__}.{a}')
    return sorted(set(out))


class Corpus:
    """Donor documents, disjoint from the documents under edit, indexed by class and by (class, list attribute)."""

    def __init__(self, seed, n=80, salt='donors'):
        P = common.parser()
        self.by_class = collections.defaultdict(list)
        self.items = collections.defaultdict(list)
        self.docs = []
        i = 0
        while len(self.docs) < n and i < n * 6:
            r = common.rng_for(seed, salt, i)
            i += 1
            prof = gen.SPACED_LF if i % 3 else gen.SPACED     # donors never abut tokens: what that does to edits is a finding about *inputs*
            t = gen.document(r, prof, n=r.randint(2, 7))
            try:
                f = P.parse(t, models.File)
            except Exception:
                continue
            self.docs.append((t, f))
            for path, m in walker.tree_models(f):
                self.by_class[type(m)].append(m)
                for a, d, k in catalog(type(m)):
                    if k in ('raw_list', 'raw_list_comments'):
                        for it in getattr(m, a):
                            self.items[(type(m).__name__, a)].append(it)

    def node(self, r, cls, attr):
        pool = self.by_class.get(cls, [])
        for x in r.sample(pool, min(30, len(pool))):
            try:
                v = getattr(x, attr)
            except Exception:
                continue
            if isinstance(v, mbase.RawModel):
                return copy.deepcopy(v)
        return None

    def attached_node(self, r, cls, attr):
        """A node that lives inside a donor document (must be refused as a value)."""
        pool = self.by_class.get(cls, [])
        for x in r.sample(pool, min(30, len(pool))):
            try:
                v = getattr(x, attr)
            except Exception:
                continue
            if isinstance(v, mbase.RawModel):
                return v
        return None

    def value(self, r, cls, attr):
        pool = self.by_class.get(cls, [])
        for x in r.sample(pool, min(30, len(pool))):
            try:
                v = getattr(x, attr)
            except Exception:
                continue
            if v is not None and not isinstance(v, (props.RepeatedNodeWrapper, vprops.RepeatedValueWrapper)):
                return copy.deepcopy(v) if isinstance(v, mbase.RawModel) else v
        return None

    def item(self, r, clsname, attr, types=None, attached=False):
        pool = self.items.get((clsname, attr), [])
        if types is not None:
            pool = [x for x in pool if isinstance(x, types)]
        if not pool:
            return None
        x = r.choice(pool)
        return x if attached else copy.deepcopy(x)


def _keep(result, v):
    """Remembers what a call returned (for the reference comparison) and hands it on (for checks of the returned node)."""
    result.append(v)
    return v


class Op:
    def __init__(self, kind, desc, parent, path, slot, apply, syntax_ok=True, inplace_ids=(), expect=None, list_check=None,
                 donors=(), attr=None, invalid=None):
        self.kind, self.desc, self.parent, self.path = kind, desc, parent, path
        self.slot, self.apply, self.syntax_ok = slot, apply, syntax_ok
        self.inplace_ids = set(inplace_ids)
        self.expect = expect          # exception class a plain list / dict would raise too (or a documented refusal)
        self.list_check = list_check  # callable() -> None | str : view-vs-reference comparison after apply
        self.donors = list(donors)    # nodes handed to the API (free-standing copies, or attached ones for invalid ops)
        self.attr = attr
        self.invalid = invalid        # None | reason string: the call is *made* with an invalid argument by the driver

    def __repr__(self):
        return f'<Op {self.kind} {self.desc}>'


def raw_attr_for(cls, attr):
    """The raw node attribute behind a value-level attribute (`account` -> `raw_account`)."""
    cand = 'raw_' + attr
    return cand if desc_of(cls, cand) is not None else None


def _single_slot(m, attr, cls):
    """Slot nodes of a single-valued property: the raw node(s) whose tokens may change."""
    if cls is models.CostSpec or isinstance(m, models.CostSpec):
        return lambda: [m.raw_cost]          # form-changing setters: the dependent group is the braces and all components
    if isinstance(m, models.Transaction) and attr in ('payee', 'narration', 'raw_payee', 'raw_narration'):
        return lambda: [x for x in (vars(m).get('_string1'), vars(m).get('_string2')) if x is not None]
    raw = attr if attr.startswith('raw_') else raw_attr_for(type(m), attr)
    name = raw or attr

    def slot():
        try:
            v = getattr(m, name)
        except Exception:
            return []
        return [v] if isinstance(v, mbase.RawModel) else []
    return slot


INDEX_GRID = lambda n: [0, 1, n // 2, n - 1, n, -1, -n, -n - 1, n + 2]


def _slices(r, n):
    return r.choice([slice(0, 0), slice(0, 0), slice(0, 1), slice(0, 1), slice(0, 2), slice(1, None), slice(None, None), slice(n, n), slice(1, 3), slice(-1, None),
                     slice(None, -1), slice(n // 2, n // 2), slice(n // 2, None), slice(-2, -1),
                     slice(3, 1), slice(n, 0), slice(-1, 0)])     # start > stop: an empty range at `start`, as for a Python list


def _ext_slices(r):
    return r.choice([slice(None, None, 2), slice(1, None, 2), slice(None, None, -1), slice(None, None, 3), slice(None, 0, -1),
                     slice(None, None, 2), slice(None, None, -1),
                     # negative steps whose range is empty or clipped (range(n)[-10::-1] is range(-1, -1, -1))
                     slice(-10, None, -1), slice(-10, -20, -1), slice(-10, None, -2), slice(1, None, -1), slice(-2, None, -2), slice(0, None, -1),
                     slice(-10, 0, -3), slice(-10, 1, -1), slice(-10, 0, -1), slice(20, 30, 2)])


class Generator:
    """Draws operations applicable to the *current* state of a document."""

    def __init__(self, corpus, r, syntax_only=False, invalid_rate=0.0, index_mode='grid', allow_cost=True, kinds=None, prime=None):
        self.corpus, self.r = corpus, r
        self.syntax_only = syntax_only
        self.invalid_rate = invalid_rate
        self.index_mode = index_mode          # 'grid' (incl. negative / out of range) | 'inrange'
        self.allow_cost = allow_cost
        self.kinds = kinds
        self.counter = 0
        # three generators in ten read every public attribute of every model before each operation: whatever the library caches
        # behind its views and getters is then cached when the edit arrives
        self.prime = r.random() < 0.3 if prime is None else prime

    # --- helpers ---------------------------------------------------------------------------------
    def fresh_name(self):
        self.counter += 1
        return f'n{self.counter}'

    def targets(self, root):
        return walker.tree_models(root)

    WEIGHTS = {'required_node': 3, 'optional_node': 4, 'unordered_node': 2, 'custom_node': 2, 'required_value': 2, 'optional_value': 3,
               'py_property': 1, 'raw_list': 4, 'raw_list_comments': 5, 'filtered': 4, 'raw_meta': 2, 'string_view': 3, 'custom_view': 1,
               'meta': 3}

    def next_op(self, root, tries=12):
        r = self.r
        if self.prime:
            try:
                valuestate.value_state(root)
            except Exception:
                pass        # a getter that fails on the current tree is some check's finding, not the generator's
        groups = collections.defaultdict(list)
        for path, m in self.targets(root):
            if isinstance(m, models.CostSpec) and not self.allow_cost:
                continue
            for a, d, k in catalog(type(m)):
                if self.kinds and k not in self.kinds:
                    continue
                groups[k].append((path, m, a, d))
        if not groups:
            return None
        ks = sorted(groups)
        ws = [self.WEIGHTS.get(k, 1) for k in ks]
        sticky = getattr(self, 'sticky', None)
        for _ in range(tries):
            k = r.choices(ks, ws)[0]
            path, m, a, d = r.choice(groups[k])
            if sticky and r.random() < 0.5:
                # stay on the model the previous operation touched: consecutive edits through different views of one list
                same = [(kk, c) for kk in ks for c in groups[kk] if c[1] is sticky and kk in LIST_KINDS]
                if same:
                    k, (path, m, a, d) = r.choice(same)
            try:
                op = self.build(root, path, m, a, d, k)
            except (decimal.DecimalException, ZeroDivisionError):
                continue       # reading the current value of an expression such as 1/0
            except (IndexError, KeyError, AttributeError) as e:
                # building an operation only *reads* the document (lengths, keys, current elements). If that raises inside the
                # library's list / view code, an earlier accepted edit left the document unreadable: handed to the check as an
                # operation that says so (anything else is a defect of this harness and propagates)
                tb = e.__traceback__
                while tb.tb_next is not None:
                    tb = tb.tb_next
                fn = tb.tb_frame.f_code.co_filename
                if not fn.endswith(('models/internal/properties.py', 'models/internal/value_properties.py', 'models/meta_item_internal.py',
                                    'models/internal/interleaving_comments.py', 'models/base.py')):
                    raise       # (base.py: deep-copying an element of the document, a read, fails inside the token transformer)
                msg = f'reading {path}.{a} raised {type(e).__name__}: {e} (in {fn.rsplit("/", 1)[-1]}:{tb.tb_lineno})'

                def reraise(e=e):
                    raise e
                op = Op('state:unreadable', msg, root, '$', lambda: [], reraise)
                op.unreadable = msg
                return op
            if op is not None:
                if k in LIST_KINDS:
                    self.sticky = m
                return op
        return None

    def build(self, root, path, m, a, d, k):
        if k in ('required_node', 'optional_node', 'unordered_node', 'custom_node'):
            return self.node_op(path, m, a, d, k)
        if k in ('required_value', 'optional_value'):
            return self.value_op(path, m, a, d, k)
        if k == 'py_property':
            return self.py_property_op(path, m, a, d)
        if k in ('raw_list', 'raw_list_comments'):
            return self.raw_list_op(path, m, a, k)
        if k == 'raw_meta' and self.r.random() < 0.3:
            return self.meta_op(path, m, a)            # the mapping side of raw_meta
        if k in ('filtered', 'raw_meta'):
            return self.filtered_op(path, m, a, k)
        if k in ('string_view', 'custom_view'):
            return self.string_view_op(path, m, a, k)
        if k == 'meta':
            return self.meta_op(path, m, a)
        return None

    # --- single-valued node properties --------------------------------------------------------------
    def node_op(self, path, m, a, d, k):
        r = self.r
        cls = type(m)
        try:
            cur = getattr(m, a)
        except Exception:
            return None
        optional = k != 'required_node'
        if k == 'custom_node' and cls is models.CostSpec and a == 'raw_cost_components':
            return None
        slot = _single_slot(m, a, cls)
        choices = []
        if optional and cur is not None:
            choices.append('none')
        choices.append('donor')
        invalid = None
        if r.random() < self.invalid_rate:
            invalid = r.choice(['attached-other-document', 'attached-same-document'])
        what = r.choice(choices)
        if invalid:
            what = 'donor'
        if what == 'none':
            if self.syntax_only and not self._clear_is_syntax_ok(m, a):
                return None
            return Op(f'{k}:clear', f'{path}.{a} = None', m, path, slot, lambda: setattr(m, a, None), attr=a,
                      syntax_ok=self._clear_is_syntax_ok(m, a))
        if invalid == 'attached-other-document':
            v = self.corpus.attached_node(r, cls, a)
        elif invalid == 'attached-same-document':
            v = cur if (cur is not None and r.random() < 0.3) else None
            if v is None:
                # another instance of the same class in this document
                v = self.corpus.attached_node(r, cls, a)
        else:
            v = self.corpus.node(r, cls, a)
        if v is None:
            return None
        if invalid and v is cur:
            return None   # assigning the node already there is a documented no-op for replace_node
        syntax_ok = self._node_is_syntax_ok(m, a, v) and not self._custom_ambiguity(path, v)
        if self.syntax_only and not syntax_ok:
            return None
        kindname = f'{k}:{"replace" if cur is not None else "set"}'
        return Op(kindname, f'{path}.{a} = <{type(v).__name__} {common.pr(v)!r:.60}>', m, path, slot,
                  lambda: setattr(m, a, v), syntax_ok=syntax_ok, donors=[v], attr=a,
                  invalid=invalid, expect=ValueError if invalid else None)

    @staticmethod
    def _custom_ambiguity(path, v):
        """docs/special/numbers.md: a signed number placed after another number among `custom` values must be parenthesised
        by the user; such edits are outside the syntax-preserving set."""
        if '._values.items[' not in path:
            return False
        if isinstance(v, mbase.RawModel):
            return common.pr(v).lstrip()[:1] in ('-', '+')
        if isinstance(v, D):
            return v < 0
        return False

    def _clear_is_syntax_ok(self, m, a):
        if isinstance(m, models.CostSpec):
            return True
        if isinstance(m, models.Transaction) and a in ('raw_narration',):
            return True
        return True

    def _node_is_syntax_ok(self, m, a, v):
        # raw nodes whose indent class does not fit the slot / comment nodes with foreign indentation
        if isinstance(v, models.BlockComment):
            want_indented = hasattr(m, '_indent')
            if bool(v.indent) != want_indented:
                return False
            if '\r' in v.raw_text.replace('\r\n', '\n') or v.raw_text.count('\r\n') != v.raw_text.count('\n') and '\r' in v.raw_text:
                pass
        if a in ('raw_indent',):
            return True
        return True

    # --- single-valued value properties ---------------------------------------------------------------
    def value_op(self, path, m, a, d, k):
        r = self.r
        cls = type(m)
        try:
            cur = getattr(m, a)
        except Exception:
            return None
        optional = k == 'optional_value'
        slot = _single_slot(m, a, cls)
        choices = ['donor', 'donor', 'gen']
        if optional and cur is not None:
            choices.append('none')
        what = r.choice(choices)
        syntax_ok = a != 'indent'
        if what == 'none':
            v = None
        else:
            v = self.corpus.value(r, cls, a) if what == 'donor' else None
            if v is None:
                v = self._gen_value(m, a, cur)
            if v is None:
                return None
        if isinstance(v, mbase.RawModel):
            donors = [v]
        else:
            donors = []
        if a == 'indent' and isinstance(v, str) and not v:
            return None
        if self._custom_ambiguity(path, v):
            syntax_ok = False
        if self.syntax_only and not syntax_ok:
            return None
        o = Op(f'{k}:{"clear" if v is None else "set"}', f'{path}.{a} = {v!r:.60}', m, path, slot,
               lambda: setattr(m, a, v), syntax_ok=syntax_ok, donors=donors, attr=a)
        o.assigned = v
        return o

    def _gen_value(self, m, a, cur):
        r = self.r
        raw = raw_attr_for(type(m), a)
        rawv = None
        if raw:
            try:
                rawv = getattr(m, raw)
            except Exception:
                rawv = None
        if rawv is not None and not isinstance(rawv, mbase.RawTreeModel):
            return values.value_for(r, rawv, hostile=False)
        if a in ('payee', 'narration'):
            return r.choice(['', '', 'p', 'new text', 'q "x" \\'])      # (the empty string is a value: a payee "" is a payee)
        if isinstance(cur, str):
            if 'comment' in a:
                return values.rinline_comment_value(r, False) if 'inline' in a else r.choice(['c', 'two\nlines', 'x;y', ''])
            return None
        if isinstance(cur, D) or 'number' in a or a == 'tolerance':
            return values.rsigned(r)
        if isinstance(cur, datetime.date):
            return values.rdate(r)
        if 'comment' in a:
            return values.rinline_comment_value(r, False) if 'inline' in a else r.choice(['c', 'two\nlines', 'x;y', ''])
        return None

    def py_property_op(self, path, m, a, d):
        if isinstance(m, models.CostSpec) and a == 'merge':
            v = self.r.choice([True, False])
            return Op('py_property:set', f'{path}.merge = {v}', m, path, _single_slot(m, a, type(m)), lambda: setattr(m, a, v), attr=a)
        if isinstance(m, models.NumberExpr) and a == 'value':
            v = values.rsigned(self.r)
            ok = not self._custom_ambiguity(path, v)
            if self.syntax_only and not ok:
                return None
            return Op('py_property:set', f'{path}.value = {v}', m, path, lambda: [m], lambda: setattr(m, a, v), attr=a,
                      inplace_ids=[id(m)], syntax_ok=ok)
        return None

    # --- raw repeated wrappers ------------------------------------------------------------------------
    def _index(self, n):
        r = self.r
        if self.index_mode == 'inrange':
            return r.randrange(n) if n else 0
        return r.choice(INDEX_GRID(n))

    def _pool_item(self, m, a, types=None, attached=False):
        syntax = self.syntax_only
        for _ in range(6):
            it = self.corpus.item(self.r, type(m).__name__, a, types, attached)
            if it is None:
                return None
            if syntax and isinstance(m, models.Custom) and isinstance(it, (models.NumberExpr, models.Amount)):
                continue
            if syntax and not self._fits_indented_list(a, it):
                continue
            return it
        return None

    @staticmethod
    def _fits_indented_list(a, it):
        """An unindented comment can sit at the very end of an entry's indented block (before the dedent) and so be an element of
        a meta/postings list; moved in front of an indented item it would end the block: not a raw node with a fitting indent."""
        if a in ('raw_meta_with_comments', 'raw_postings_with_comments') and isinstance(it, models.BlockComment):
            return bool(it.indent)
        return True

    def raw_list_op(self, path, m, a, k):
        r = self.r
        w = getattr(m, a)
        n = len(w)
        ops = ['append', 'insert', 'insert', 'pop', 'delint', 'setint', 'setslice', 'delslice', 'extend', 'clear', 'setext', 'delext',
               'move', 'copyinsert', 'iadd', 'remove']
        op = r.choice(ops)
        if n and r.random() < 0.03:
            # drop_many(): positions as a list reads them - negative ones from the end, repeated ones once, out-of-range ones refused
            idxs = [r.randrange(-n - 1, n + 1) for _ in range(r.randint(1, 3))]
            if r.random() < 0.4:
                idxs.append(idxs[0])
            ref = list(w)
            try:
                gone = {range(n)[i] for i in idxs}
                exp_items, expect = [x for i, x in enumerate(ref) if i not in gone], None
            except IndexError:
                exp_items, expect = ref, IndexError

            def lc():
                cur = list(getattr(m, a))
                if len(cur) != len(exp_items) or any(x is not y for x, y in zip(cur, exp_items)):
                    return f'drop_many({idxs}) on {n} elements left {len(cur)} elements, a list without those positions has {len(exp_items)}'
                return None
            o = Op(f'{k}:dropmany', f'{path}.{a}.drop_many({idxs}) n={n}', m, path, lambda: list(getattr(m, a)), lambda: w.drop_many(idxs),
                   attr=a, list_check=lc, expect=expect)
            o.list_attr = a
            return o
        if self.invalid_rate and r.random() < 0.05:
            # assign the whole list of another model *as it is* (still attached there): refused, and the offered list stays the list
            # of the model it belongs to
            def spans_store(x):
                # (a list that spans its model's whole store - the entries of a file without a final newline - passes for a free
                # node: the known finding whole-store-child-accepted, driven by its own special kind; the donors here are shared)
                rep = getattr(x, a).repeated
                st = rep.token_store
                return st is None or (rep.first_token is st.get_first() and rep.last_token is st.get_last())
            others = [x for x in self.corpus.by_class.get(type(m), [])
                      if x is not m and not isinstance(x, models.File) and len(getattr(x, a)) and not spans_store(x)]
            if others:
                other = r.choice(others)
                src = getattr(other, a)
                owner_before = vars(src).get('_model', None)
                o = Op(f'{k}:assign-attached', f'{path}.{a} = <the {a} of another {type(m).__name__}, attached there>', m, path,
                       lambda: list(getattr(m, a)), lambda: setattr(m, a, src), attr=a, expect=ValueError, invalid='attached-list',
                       donors=[other])
                o.list_attr = a
                o.after_refusal = lambda: None if vars(src).get('_model', None) is owner_before else \
                    'the refused call re-bound the offered list object to the receiver (its claims will scan the wrong model)'
                return o
        if r.random() < 0.04 and (not self.syntax_only or k == 'raw_list'):
            # assign the whole list: a deep copy of the same list of another model of this class
            pool = [x for x in self.corpus.by_class.get(type(m), []) if len(getattr(x, a))]
            if pool:
                new = copy.deepcopy(getattr(r.choice(pool), a))
                ref = list(new)

                kind_before = type(w)

                def lc():
                    if type(getattr(m, a)) is not kind_before:
                        return (f'after assigning the whole list, {a} is a {type(getattr(m, a)).__name__}, '
                                f'no longer a {kind_before.__name__}')
                    cur = list(getattr(m, a))
                    if len(cur) != len(ref) or any(x is not y for x, y in zip(cur, ref)):
                        return f'after assigning the whole list, {a} does not hold the assigned elements'
                    return None
                alias = copy.deepcopy(ref[-1]) if r.random() < 0.5 and self._fits_indented_list(a, ref[-1]) else None

                def apply():
                    setattr(m, a, new)
                    if alias is not None:
                        # the assigned object stays an alias of the model's list: an edit through it is an edit of the model, seen by
                        # every view of the list (which are read, i.e. built, first)
                        try:
                            valuestate.value_state(m)
                        except Exception:
                            pass
                        new.append(alias)
                if alias is not None:
                    ref.append(alias)
                o = Op(f'{k}:assign', f'{path}.{a} = deepcopy(<{a} of another {type(m).__name__}, {len(ref)} elements>)' +
                       ('; then append through the assigned object' if alias is not None else ''), m, path,
                       lambda: list(getattr(m, a)), apply, attr=a, list_check=lc, donors=ref)
                o.list_attr = a
                return o
        return self._list_op(path, m, a, k, w, op, lambda types=None, attached=False: self._pool_item(m, a, types, attached),
                             identity=True)

    def filtered_op(self, path, m, a, k):
        r = self.r
        w = getattr(m, a)
        raw_attr = {'directives': 'raw_directives_with_comments', 'raw_directives': 'raw_directives_with_comments',
                    'postings': 'raw_postings_with_comments', 'raw_postings': 'raw_postings_with_comments',
                    'raw_meta': 'raw_meta_with_comments'}[a]
        types = w._raw_type if hasattr(w, '_raw_type') else None
        ops = ['append', 'insert', 'pop', 'delint', 'setint', 'setslice', 'delslice', 'extend', 'clear', 'setext', 'delext', 'remove', 'iadd']
        op = r.choice(ops)
        return self._list_op(path, m, a, k, w, op,
                             lambda t=None, attached=False: self._pool_item(m, raw_attr, types, attached), identity=True,
                             raw_attr=raw_attr, filtered=True)

    def _list_op(self, path, m, a, k, w, op, mkitem, identity, raw_attr=None, filtered=False):
        r = self.r
        n = len(w)
        raw_w = getattr(m, raw_attr) if raw_attr else w
        invalid = None
        if r.random() < self.invalid_rate:
            invalid = 'attached-element'

        dup = kk_dup = False
        if op in ('extend', 'setslice', 'setext', 'iadd') and r.random() < (0.15 if self.invalid_rate else 0.04):
            dup = True      # the same free node named twice in one batch: must be refused (a node cannot be in two places)

        def dn(kk, bad_at=None):
            nonlocal invalid
            out = []
            for i in range(kk):
                it = mkitem(attached=(bad_at == i))
                if it is None:
                    return None
                out.append(it)
            if dup and kk >= 2 and bad_at is None:
                out[r.randrange(1, kk)] = out[0]
                invalid = 'duplicate-element'
            return out

        def slot():
            return list(getattr(m, raw_attr or a))
        ref = list(w)
        idx = self._index(n)
        sl = _slices(r, n)
        ext = _ext_slices(r)
        kk = r.choice([0, 1, 1, 2, 3])
        vals = []
        desc = f'{path}.{a}.{op}'
        expect = None
        apply = None
        try:
            if op == 'append':
                vals = dn(1, 0 if invalid else None)
                if vals is None:
                    return None
                ref.append(vals[0])
                apply = lambda: w.append(vals[0])
            elif op == 'insert':
                vals = dn(1, 0 if invalid else None)
                if vals is None:
                    return None
                desc += f'({idx}) n={n}'
                ref.insert(idx, vals[0])
                apply = lambda: w.insert(idx, vals[0])
            elif op == 'pop':
                invalid = None
                desc += f'({idx}) n={n}'
                apply = lambda: w.pop(idx)
                ref.pop(idx)
            elif op == 'delint':
                invalid = None
                desc += f'[{idx}] n={n}'
                apply = lambda: w.__delitem__(idx)
                del ref[idx]
            elif op == 'setint':
                vals = dn(1, 0 if invalid else None)
                if vals is None:
                    return None
                desc += f'[{idx}]= n={n}'
                apply = lambda: w.__setitem__(idx, vals[0])
                ref[idx] = vals[0]
            elif op == 'setslice':
                bad = r.randrange(kk) if (invalid and kk) else None
                if invalid and not kk:
                    invalid = None
                vals = dn(kk, bad)
                if vals is None:
                    return None
                desc += f'[{sl.start}:{sl.stop}]= k={kk} n={n}'
                apply = lambda: w.__setitem__(sl, vals)
                old_len = len(ref[sl])
                ref[sl] = vals
                if filtered and old_len != kk:
                    expect = ValueError      # documented refusal: length-changing assignment through a filtered view
            elif op == 'delslice':
                invalid = None
                desc += f'[{sl.start}:{sl.stop}] n={n}'
                apply = lambda: w.__delitem__(sl)
                del ref[sl]
            elif op == 'extend':
                bad = r.randrange(kk) if (invalid and kk) else None
                if invalid and not kk:
                    invalid = None
                vals = dn(kk, bad)
                if vals is None:
                    return None
                desc += f' k={kk} n={n}'
                apply = lambda: w.extend(vals)
                ref.extend(vals)
            elif op == 'iadd':
                invalid = None
                vals = dn(kk)
                if vals is None:
                    return None
                desc += f' k={kk} n={n}'
                if r.random() < 0.5:
                    apply = lambda: w.__iadd__(vals)
                else:
                    # `model.attr += vals` as Python executes it: read, extend in place, assign the result back through the property
                    desc += ' (attribute form)'

                    def apply():
                        v = getattr(m, a)
                        v += vals
                        setattr(m, a, v)
                ref.extend(vals)
            elif op == 'clear':
                invalid = None
                apply = lambda: w.clear()
                ref.clear()
            elif op == 'setext':
                size = len(range(n)[ext])
                wrong = r.random() < (0.5 if self.invalid_rate else 0.1)
                cnt = size + r.choice([1, 2]) if wrong else size
                bad = r.randrange(cnt) if (invalid and cnt) else None
                if invalid and not cnt:
                    invalid = None
                vals = dn(cnt, bad)
                if vals is None:
                    return None
                desc += f'[{ext.start}:{ext.stop}:{ext.step}]= k={cnt} n={n}'
                apply = lambda: w.__setitem__(ext, vals)
                ref[ext] = vals
            elif op == 'delext':
                invalid = None
                desc += f'[{ext.start}:{ext.stop}:{ext.step}] n={n}'
                apply = lambda: w.__delitem__(ext)
                del ref[ext]
            elif op == 'reverse':
                invalid = None
                if n < 2 or filtered:
                    return None
                apply = lambda: w.reverse()
                ref.reverse()
            elif op == 'remove':
                invalid = None
                if not n:
                    return None
                target = r.choice(ref)
                desc += f'(<element {ref.index(target)}>) n={n}'
                apply = lambda: w.remove(target)
                # list.remove uses ==; elements that compare equal to an earlier one are removed first
                ref.remove(target)
            elif op == 'move':
                invalid = None
                if not n:
                    return None
                i = r.randrange(n)
                j = r.randrange(n)
                desc += f' pop({i})->insert({j}) n={n}'
                if self.syntax_only and not self._fits_indented_list(raw_attr or a, ref[i]):
                    return None

                def apply():
                    x = w.pop(i)
                    w.insert(j, x)
                x = ref.pop(i)
                ref.insert(j, x)
            elif op == 'copyinsert':
                invalid = None
                if not n:
                    return None
                i = r.randrange(n)
                j = r.randrange(n + 1)
                desc += f' insert({j}, deepcopy([{i}])) n={n}'
                c = copy.deepcopy(w[i])
                vals = [c]
                if self.syntax_only and not self._fits_indented_list(raw_attr or a, c):
                    return None
                if self.syntax_only and isinstance(m, models.Custom) and isinstance(c, (models.NumberExpr, models.Amount)):
                    return None
                apply = lambda: w.insert(j, c)
                ref.insert(j, c)
            else:
                return None
        except (IndexError, ValueError) as e:
            expect = type(e)      # a plain list refuses this call too
        if invalid and expect is None:
            expect = ValueError
        if invalid is None and any(v.token_store is not None and (v.first_token is not v.token_store.get_first()) for v in vals):
            return None
        lc = None
        if expect is None:
            def lc():
                cur = list(w)
                if len(cur) != len(ref) or any(x is not y for x, y in zip(cur, ref)):
                    return f'list semantics: {a} has {len(cur)} elements, a Python list given the same call has {len(ref)}'
                return None
        kind = f'{k}:{op}'
        o = Op(kind, desc, m, path, slot, apply, donors=vals, attr=a, expect=expect, list_check=lc, invalid=invalid)
        o.list_attr = raw_attr or a
        o.position_class = ('empty' if n == 0 else 'only' if n == 1 else 'first' if idx in (0, -n) else 'last' if idx in (n - 1, -1, n) else 'middle')
        o.arity = len(vals)
        o.composite = op == 'move'
        return o

    # --- string views -------------------------------------------------------------------------------------
    def string_view_op(self, path, m, a, k):
        r = self.r
        w = getattr(m, a)
        n = len(w)
        raw_attr = {'tags': 'raw_tags_links', 'links': 'raw_tags_links', 'currencies': 'raw_currencies', 'values': 'raw_values'}[a]
        raw_w = getattr(m, raw_attr)

        def mk():
            if a == 'currencies':
                return r.choice(values.CURRENCIES)
            if a in ('tags', 'links'):
                return self.fresh_name()
            return r.choice(['s' + self.fresh_name(), datetime.date(2001, 2, r.randint(1, 28)), True, False,
                             models.Account.from_value('Assets:V')] + ([] if self.syntax_only else [D(r.randint(1, 99))]))
        op = r.choice(['append', 'insert', 'pop', 'delint', 'setint', 'extend', 'remove', 'clear', 'delslice', 'setslice', 'setslice', 'discard', 'iadd', 'reverse'])
        idx = self._index(n)
        ref = list(w)
        desc = f'{path}.{a}.{op}'
        expect = None
        inplace = set()
        try:
            if op == 'append':
                v = mk()
                ref.append(v)
                apply = lambda: w.append(v)
                desc += f'({v!r})'
            elif op == 'insert':
                v = mk()
                ref.insert(idx, v)
                apply = lambda: w.insert(idx, v)
                desc += f'({idx}, {v!r}) n={n}'
            elif op == 'pop':
                apply = lambda: w.pop(idx)
                desc += f'({idx}) n={n}'
                ref.pop(idx)
            elif op == 'delint':
                apply = lambda: w.__delitem__(idx)
                desc += f'[{idx}] n={n}'
                del ref[idx]
            elif op == 'setint':
                v = mk()
                apply = lambda: w.__setitem__(idx, v)
                desc += f'[{idx}]={v!r} n={n}'
                ref[idx] = v
                inplace = {id(x) for x in raw_w}
            elif op == 'extend':
                vs = [mk(), mk()]
                apply = lambda: w.extend(vs)
                ref.extend(vs)
            elif op == 'reverse':
                apply = lambda: w.reverse()
                if any(isinstance(x, mbase.RawModel) and ref[len(ref) - 1 - i] is not x for i, x in enumerate(ref)):
                    expect = ValueError         # elements that are nodes cannot be moved while attached: refused as a whole
                else:
                    ref.reverse()               # (a node that keeps its place - the middle one - is not moved)
                inplace = {id(x) for x in raw_w}
            elif op == 'iadd':
                vs = [mk(), mk()][:r.randint(0, 2)]
                desc += f' {vs!r} (attribute form)'

                def apply():        # `model.tags += vs` as Python executes it
                    v = getattr(m, a)
                    v += vs
                    setattr(m, a, v)
                ref.extend(vs)
            elif op == 'remove':
                if not ref:
                    return None
                v = r.choice(ref)
                apply = lambda: w.remove(v)
                desc += f'({v!r})'
                ref.remove(v)
            elif op == 'discard':
                if not ref or not hasattr(w, 'discard'):
                    return None
                v = r.choice(ref)
                apply = lambda: w.discard(v)
                desc += f'({v!r})'
                ref[:] = [x for x in ref if x != v]
            elif op == 'clear':
                apply = lambda: w.clear()
                ref.clear()
            elif op == 'delslice':
                sl = r.choice([slice(0, 1), slice(1, None), slice(None, None, 2), slice(-2, None), slice(0, 0),
                               slice(None, None, -1), slice(-10, None, -1), slice(-10, None, -2), slice(1, None, -1)])
                apply = lambda: w.__delitem__(sl)
                desc += f'[{sl.start}:{sl.stop}:{sl.step}] n={n}'
                del ref[sl]
            elif op == 'setslice':
                sl = r.choice([slice(0, 1), slice(1, 2), slice(None, None, 2), slice(-1, None), slice(0, 2),
                               slice(None, None, -1), slice(-10, None, -1), slice(-10, -20, -1), slice(-10, None, -2), slice(1, None, -1),
                               slice(-10, 0, -3), slice(-10, 1, -1), slice(-10, 0, -1)])
                size = len(ref[sl])
                cnt = size if r.random() < 0.8 else size + 1
                vs = [mk() for _ in range(cnt)]
                apply = lambda: w.__setitem__(sl, vs)
                desc += f'[{sl.start}:{sl.stop}:{sl.step}]= k={cnt} n={n}'
                if cnt != size:
                    expect = ValueError   # documented refusal
                    if sl.step is None:
                        ref[sl] = vs
                else:
                    ref[sl] = vs
                inplace = {id(x) for x in raw_w}
            else:
                return None
        except (IndexError, ValueError) as e:
            expect = type(e)
        lc = None
        if expect is None:
            def lc():
                cur = list(w)
                if cur != ref:
                    return f'list semantics: {a} reads {cur!r:.200}, a Python list given the same call reads {ref!r:.200}'
                return None
        o = Op(f'{k}:{op}', desc, m, path, lambda: list(getattr(m, raw_attr)), apply, attr=a, expect=expect, list_check=lc,
               inplace_ids=inplace)
        o.list_attr = raw_attr
        return o

    # --- meta mapping -----------------------------------------------------------------------------------------
    def meta_op(self, path, m, a):
        """Mapping-side calls on `meta` (values) and `raw_meta` (MetaItem nodes). Every op carries a reference check: the keys
        after the call, the value now stored under the key and the call's result are those of an ordered dict with first-match
        lookup (duplicates keep their place) given the same call."""
        r = self.r
        w = getattr(m, a)
        raw = a == 'raw_meta'
        items_before = list(w)
        keys = [it.key for it in items_before]
        raw_attr = 'raw_meta_with_comments'
        op = r.choice(['setnew', 'setnew', 'setexisting', 'del', 'pop', 'popdefault', 'delmissing', 'setdefault', 'update', 'popitem'])
        desc = f'{path}.{a}.{op}'
        expect = None
        inplace = set()
        indent = items_before[0].indent if items_before else ('        ' if isinstance(m, models.Posting) else '    ')
        if raw and self.syntax_only and not items_before:
            return None

        def plain():
            return r.choice(['text ' + self.fresh_name(), datetime.date(2002, 3, r.randint(1, 28)), D(r.randint(0, 999)), True, False, None,
                             models.Account.from_value('Assets:M'), models.Currency.from_value('CUR'), models.Tag.from_value('mt'),
                             models.Null.from_default(), models.Amount.from_value(D(r.randint(1, 9)), 'USD')])

        def mv(key):
            return models.MetaItem.from_value(key, plain(), indent=indent) if raw else plain()

        def first(key):
            return next(i for i, k in enumerate(keys) if k == key)

        def same_value(got, v):
            if raw or isinstance(v, mbase.RawModel):
                return got is v
            return type(got) is type(v) and got == v

        result = []
        exp_keys = list(keys)
        stored = []          # [(key, value that w[key] must now give)]
        exp_result = result  # sentinel: no expectation
        if op == 'setnew':
            key = 'k' + self.fresh_name()
            v = mv(key)
            apply = lambda: _keep(result, w.__setitem__(key, v))
            exp_keys = keys + [key]
            stored = [(key, v)]
            desc += f'[{key!r}]={v!r:.40}'
        elif op == 'setexisting':
            if not keys:
                return None
            key = r.choice(keys)
            v = mv(key)
            apply = lambda: _keep(result, w.__setitem__(key, v))
            stored = [(key, v)]
            desc += f'[{key!r}]={v!r:.40}'
            inplace = {id(x) for x in getattr(m, raw_attr)}
        elif op in ('del', 'pop'):
            if not keys:
                return None
            key = r.choice(keys)
            del exp_keys[first(key)]
            if op == 'del':
                apply = lambda: _keep(result, w.__delitem__(key))
            else:
                apply = lambda: _keep(result, w.pop(key))
                old = items_before[first(key)]
                exp_result = ('item', old) if raw else ('value-of', old, old.value)
            desc += f'({key!r})'
        elif op == 'popdefault':
            apply = lambda: _keep(result, w.pop('zz-missing', None))
            exp_result = ('plain', None)
        elif op == 'delmissing':
            apply = lambda: w.__delitem__('zz-missing')
            expect = KeyError
        elif op == 'setdefault':
            key = r.choice(keys + ['k' + self.fresh_name()])
            v = mv(key)
            apply = lambda: _keep(result, w.setdefault(key, v))
            if key not in keys:
                exp_keys = keys + [key]
                stored = [(key, v)]
            desc += f'({key!r}, {v!r:.40})'
        elif op == 'update':
            k1, k2 = 'k' + self.fresh_name(), (r.choice(keys) if keys else 'k' + self.fresh_name())
            d = {k1: mv(k1), k2: mv(k2)}
            if not raw and r.random() < 0.4 and re.fullmatch(r'[a-z][a-zA-Z0-9\-_]+', k2):
                # the argument is the meta mapping of another entry (plain values only: nodes of that entry would be attached);
                # (a key token that an earlier raw_text assignment has emptied cannot be written into a text)
                other = common.parser().parse(f'2000-01-01 close Assets:X\n    {k1}: "a {k1}"\n    {k2}: {r.randint(1, 99)}', models.Close)
                arg = other.meta
                d = dict(arg.items())
                desc += ' <meta of another entry>'
            else:
                arg = d
            apply = lambda: _keep(result, w.update(arg))
            exp_keys = keys + [k for k in d if k not in keys]
            stored = list(d.items())
            desc += f'({list(d)!r})'
            inplace = {id(x) for x in getattr(m, raw_attr)}
        elif op == 'popitem':
            apply = lambda: _keep(result, w.popitem())
            if not keys:
                expect = KeyError
            else:
                exp_keys = keys[:-1]
                old = items_before[-1]
                exp_result = ('pair', old.key, old if raw else old.value, old)
        else:
            return None

        def lc():
            now = list(w.keys())
            if now != exp_keys:
                return f'dict semantics: keys are {now!r}, an ordered dict (first match, duplicates kept) given the same call has {exp_keys!r}'
            for key, v in stored:
                try:
                    got = w[key]
                except Exception as e:
                    return f'dict semantics: reading [{key!r}] after the call raised {type(e).__name__}'
                if not same_value(got, v):
                    return f'dict semantics: [{key!r}] reads {got!r:.80} after {v!r:.80} was stored under it'
            if exp_result is not result and result:
                got = result[0]
                if exp_result[0] == 'plain' and got is not exp_result[1]:
                    return f'dict semantics: the call returned {got!r:.80}'
                if exp_result[0] == 'item' and got is not exp_result[1]:
                    return f'dict semantics: pop returned {got!r:.80}, not the first item with that key'
                if exp_result[0] == 'value-of':
                    v0 = exp_result[2]
                    if not (got is v0 or (not isinstance(v0, mbase.RawModel) and type(got) is type(v0) and got == v0)):
                        return f'dict semantics: pop returned {got!r:.80}, the first item with that key held {v0!r:.80}'
                if exp_result[0] == 'pair':
                    _, k0, v0, _item = exp_result
                    if not (isinstance(got, tuple) and len(got) == 2 and got[0] == k0 and
                            (got[1] is v0 or (not isinstance(v0, mbase.RawModel) and type(got[1]) is type(v0) and got[1] == v0))):
                        return f'dict semantics: popitem returned {got!r:.80}, the last item was ({k0!r}, {v0!r:.60})'
            return None
        o = Op(f'{"rawmeta" if raw else "meta"}:{op}', desc, m, path, lambda: list(getattr(m, raw_attr)), apply, attr=a, expect=expect,
               inplace_ids=inplace, list_check=lc)
        o.list_attr = raw_attr
        return o


# --- operations that are not property/list edits -----------------------------------------------------------------

class MiscGenerator:
    """Token assignments, spacing setters and comment claim/unclaim calls (used by C05/C11/C04 histories)."""

    def __init__(self, r):
        self.r = r

    def arith_op(self, root):
        """In-place arithmetic (and explicit parenthesising) on a number expression that sits somewhere inside the document."""
        r = self.r
        es = [(p, m) for p, m in walker.walk(root) if isinstance(m, models.NumberExpr)]
        if not es:
            return None
        p, e = r.choice(es)
        what = r.choice(['*=', '/=', '+=', '-=', 'wrap', '*=expr', '+=expr', '-=expr', '/=expr'])
        if what == 'wrap':
            return Op('arith:wrap', f'{p}.wrap_with_parenthesis()', root, '$', lambda: [e], e.wrap_with_parenthesis, inplace_ids=[id(e)])
        if what.endswith('expr'):
            # a free right operand with a top-level + or -: the library has to put it in parentheses of its own making
            other = models.NumberExpr.from_value(D(r.randint(2, 9)))
            if r.random() < 0.5:
                other += r.randint(1, 3)
            else:
                other -= D(r.randint(1, 3))
            efn = {'*': operator.imul, '/': operator.itruediv, '+': operator.iadd, '-': operator.isub}[what[0]]
            return Op('arith:' + what, f'{p} {what[:2]} <free expression {common.pr(other)!r}>', root, '$', lambda: [e], lambda: efn(e, other),
                      inplace_ids=[id(e)])
        c = r.choice([2, 3, D('0.5'), D('-1')])
        fn = {'*=': operator.imul, '/=': operator.itruediv, '+=': operator.iadd, '-=': operator.isub}[what]
        return Op('arith:' + what, f'{p} {what} {c}', root, '$', lambda: [e], lambda: fn(e, c), inplace_ids=[id(e)])

    def next_op(self, root, kinds=('token', 'spacing', 'claim')):
        r = self.r
        kind = r.choice(kinds)
        if kind == 'arith':
            return self.arith_op(root)
        store = root.token_store
        if kind == 'token':
            toks = [t for t in store if hasattr(type(t), 'value')]
            if not toks:
                return None
            t = r.choice(toks)
            v = values.value_for(r, t, hostile=False)
            if v is None:
                return None
            return Op('token:value', f'<{type(t).__name__} {t.raw_text!r:.30}>.value = {v!r:.40}', root, '$', lambda: [t],
                      lambda: setattr(t, 'value', v), inplace_ids=[id(t)], syntax_ok=not isinstance(t, models.Indent))
        if kind == 'spacing':
            ms = [(p, m) for p, m in walker.walk(root) if m is not root and hasattr(type(m), 'spacing_before') and not isinstance(m, Repeated)]
            if not ms:
                return None
            p, m = r.choice(ms)
            side = r.choice(['spacing_before', 'spacing_after'])
            s = r.choice([' ', '  ', '\t', '\n', '\n\n', ''])
            return Op('spacing:set', f'{p}.{side} = {s!r}', root, '$', lambda: [], lambda: setattr(m, side, s), syntax_ok=False)
        if kind == 'claim':
            return self.claim_op(root)
        return None

    def give_comment_op(self, root):
        """A deep copy of a comment of the document (of an unowned one where there is one: its flag says 'not claimed') is given to
        a list or to a model as its leading / trailing comment."""
        r = self.r
        from autobean_refactor.models.internal.surrounding_comments import SurroundingCommentsMixin
        cs = [t for t in root.token_store if isinstance(t, models.BlockComment)]
        if not cs:
            return None
        free = [t for t in cs if not t.claimed]
        src = r.choice(free) if free and r.random() < 0.8 else r.choice(cs)
        c = copy.deepcopy(src)
        nodes = list(walker.walk(root))
        if r.random() < 0.5:
            ws = [(p + '.' + a, m, getattr(m, a)) for p, m in nodes if isinstance(m, mbase.RawTreeModel) and not isinstance(m, Repeated)
                  for a, d, k in catalog(type(m)) if k == 'raw_list_comments']
            if not ws:
                return None
            p, m, w = r.choice(ws)
            first = next((x for x in w if hasattr(x, 'indent')), None)
            c.indent = first.indent if first is not None else ('' if isinstance(m, models.File) else '    ')
            # every route by which a list takes an element: the list owns what it holds, however it got it
            own = [i for i, x in enumerate(w) if isinstance(x, models.BlockComment)]
            route = r.choice(['append', 'insert', 'extend', 'setslice'] + (['setitem', 'setitem', 'setslice-over'] if own else []))
            n = len(w)
            if route == 'append':
                call, how = (lambda: w.append(c)), 'append(c)'
            elif route == 'insert':
                i = r.randint(0, n)
                call, how = (lambda: w.insert(i, c)), f'insert({i}, c)'
            elif route == 'extend':
                call, how = (lambda: w.extend([c])), 'extend([c])'
            elif route == 'setslice':
                i = r.randint(0, n)
                call, how = (lambda: w.__setitem__(slice(i, i), [c])), f'[{i}:{i}] = [c]'
            elif route == 'setitem':
                i = r.choice(own) - r.choice([0, n])         # over a standalone comment the list already holds (positive or negative index)
                call, how = (lambda: w.__setitem__(i, c)), f'[{i}] = c'
            else:
                i = r.choice(own)
                call, how = (lambda: w.__setitem__(slice(i, i + 1), [c])), f'[{i}:{i + 1}] = [c]'
            o = Op('claim:give-to-list', f'{p}.{how} with c = <copy of comment {src.raw_text!r:.30}, claimed={src.claimed}>', root, '$', lambda: [], call)
            o.route = route
        else:
            sm = [(p, m) for p, m in nodes if isinstance(m, SurroundingCommentsMixin)]
            if not sm:
                return None
            p, m = r.choice(sm)
            side = r.choice(['raw_leading_comment', 'raw_trailing_comment'])
            c.indent = m.indent if hasattr(m, 'indent') and isinstance(getattr(m, 'indent', None), str) else ''
            o = Op('claim:give-to-model', f'{p}.{side} = <copy of comment {src.raw_text!r:.30}, claimed={src.claimed}>', root, '$', lambda: [],
                   lambda: setattr(m, side, c))
        o.given = c
        return o

    def claim_op(self, root):
        r = self.r
        from autobean_refactor.models.internal.surrounding_comments import SurroundingCommentsMixin
        nodes = list(walker.walk(root))
        sm = [(p, m) for p, m in nodes if isinstance(m, SurroundingCommentsMixin)]
        wr = []
        for p, m in nodes:
            if isinstance(m, mbase.RawTreeModel) and not isinstance(m, Repeated):
                for a, d, k in catalog(type(m)):
                    if k == 'raw_list_comments':
                        wr.append((p + '.' + a, getattr(m, a)))
        op = r.choice(['claim_l', 'claim_t', 'unclaim_l', 'unclaim_t', 'claim_i', 'unclaim_i', 'auto', 'claim_some', 'unclaim_some'])
        if op in ('claim_l', 'claim_t', 'unclaim_l', 'unclaim_t') and sm:
            p, m = r.choice(sm)
            fn = {'claim_l': m.claim_leading_comment, 'claim_t': m.claim_trailing_comment,
                  'unclaim_l': m.unclaim_leading_comment, 'unclaim_t': m.unclaim_trailing_comment}[op]
            ign = r.random() < 0.5
            if op.startswith('claim'):
                o = Op('claim:' + op, f'{p}.{fn.__name__}(ignore_if_already_claimed={ign})', root, '$', lambda: [],
                       lambda: fn(ignore_if_already_claimed=ign), expect=None)
                o.manual_claim = (m, 'leading' if op == 'claim_l' else 'trailing', ign)
                return o
            return Op('claim:' + op, f'{p}.{fn.__name__}()', root, '$', lambda: [], fn)
        if op in ('claim_i', 'unclaim_i') and wr:
            p, w = r.choice(wr)
            fn = w.claim_interleaving_comments if op == 'claim_i' else w.unclaim_interleaving_comments
            return Op('claim:' + op, f'{p}.{fn.__name__}()', root, '$', lambda: [], fn)
        if op in ('claim_some', 'unclaim_some') and wr:
            p, w = r.choice(wr)
            cs = [t for t in root.token_store if isinstance(t, models.BlockComment)]
            if not cs:
                return None
            sel = r.sample(cs, r.randint(1, min(2, len(cs))))
            fn = w.claim_interleaving_comments if op == 'claim_some' else w.unclaim_interleaving_comments
            return Op('claim:' + op, f'{p}.{fn.__name__}(<{len(sel)} comments>)', root, '$', lambda: [], lambda: fn(sel))
        if op == 'auto':
            p, m = r.choice(nodes)
            return Op('claim:auto', f'{p}.auto_claim_comments()', root, '$', lambda: [], m.auto_claim_comments)
        return None


def pingpong_ops(root, r, nsteps=10):
    """Hands comments back and forth between the models and lists that could own them: a random walk over
    above.claim/unclaim_trailing, below.claim/unclaim_leading and claim/unclaim_interleaving of the lists around one adjacent pair
    (consecutive list elements, or a transaction's last meta item and first posting). Returns a list of Op."""
    from autobean_refactor.models.internal.surrounding_comments import SurroundingCommentsMixin
    pairs = []
    for p, m in walker.tree_models(root):
        wrappers = [(a, getattr(m, a)) for a, d, k in catalog(type(m)) if k == 'raw_list_comments']
        for a, w in wrappers:
            items = [x for x in w if isinstance(x, SurroundingCommentsMixin)]
            for x, y in zip(items, items[1:]):
                pairs.append((f'{p}.{a}', x, y, [w]))
            if items:
                pairs.append((f'{p}.{a}', None, items[0], [w]))
                pairs.append((f'{p}.{a}', items[-1], None, [w]))
        if isinstance(m, models.Transaction):
            metas = [x for x in m.raw_meta_with_comments if isinstance(x, SurroundingCommentsMixin)]
            posts = [x for x in m.raw_postings_with_comments if isinstance(x, SurroundingCommentsMixin)]
            if metas and posts:
                pairs.append((p, metas[-1], posts[0], [m.raw_meta_with_comments, m.raw_postings_with_comments]))
            if metas:
                pairs.append((p, metas[-1], None, [m.raw_meta_with_comments, m.raw_postings_with_comments]))
    if not pairs:
        return []
    store = root.token_store

    def comment_between(x, y):
        try:
            t = store.get_next(x.last_token) if x is not None else None
            if x is None:
                t = store.get_prev(y.first_token)
                succ = store.get_prev
                stop = None
            else:
                succ = store.get_next
                stop = y.first_token if y is not None else None
            n = 0
            while t is not None and t is not stop and n < 12:
                if isinstance(t, models.BlockComment):
                    return True
                if t.raw_text and not isinstance(t, walker.SPACING):
                    return False
                t = succ(t)
                n += 1
        except Exception:
            pass
        return False
    with_comment = [pr_ for pr_ in pairs if comment_between(pr_[1], pr_[2])]

    def placeholder_in_gap(x, y):
        # a list placeholder sits between the two models: claims have to move it around the comment
        try:
            t = store.get_next(x.last_token)
            n = 0
            while t is not None and t is not y.first_token and n < 12:
                if isinstance(t, internal.Placeholder):
                    return True
                t = store.get_next(t)
                n += 1
        except Exception:
            pass
        return False
    with_ph = [pr_ for pr_ in with_comment if pr_[1] is not None and pr_[2] is not None and placeholder_in_gap(pr_[1], pr_[2])]
    where, x, y, ws = r.choice(with_ph if with_ph and r.random() < 0.7 else (with_comment or pairs))
    owners = []
    targets = {}
    if x is not None:
        owners.append(('above.{}_trailing_comment()', x.claim_trailing_comment, x.unclaim_trailing_comment))
        targets['above.{}_trailing_comment()'] = (x, 'trailing', False)
    if y is not None:
        owners.append(('below.{}_leading_comment()', y.claim_leading_comment, y.unclaim_leading_comment))
        targets['below.{}_leading_comment()'] = (y, 'leading', False)
    for i, w in enumerate(ws):
        owners.append((f'list{i}.{{}}_interleaving_comments()', w.claim_interleaving_comments, w.unclaim_interleaving_comments))
    out = []
    if len(owners) >= 2 and r.random() < 0.6:
        # round robin: every owner in turn claims the comment and lets it go again, several rounds
        cyc = r.sample(owners, r.randint(2, len(owners)))
        for rnd in range(3):
            for name, claim, unclaim in cyc:
                o = Op('claim:pingpong', f'[{where}] ' + name.format('claim'), root, '$', lambda: [], claim)
                o.round_robin = (rnd, name)       # from round 1 on every owner has let go: a claim must succeed as in the round before
                if name in targets:
                    o.manual_claim = targets[name]
                out.append(o)
                out.append(Op('claim:pingpong', f'[{where}] ' + name.format('unclaim'), root, '$', lambda: [], unclaim))
        return out
    while len(out) < nsteps:
        name, claim, unclaim = r.choice(owners)
        o = Op('claim:pingpong', f'[{where}] ' + name.format('claim'), root, '$', lambda: [], claim)
        if name in targets:
            o.manual_claim = targets[name]
        out.append(o)
        if r.random() < 0.85:
            out.append(Op('claim:pingpong', f'[{where}] ' + name.format('unclaim'), root, '$', lambda: [], unclaim))
    return out


def multi_comment_ops(root, r):
    """Puts two or three *separate* comment tokens into the gap between a transaction's meta list and its postings list through the
    API (consecutive comment lines never leave the parser as separate tokens), lets the two lists release and take them in turn, and
    ends with a deletion from one of the lists. Returns a list of Op (claim calls that find nothing raise nothing; a refusal is a
    ValueError the caller may ignore)."""
    cands = [(p, m) for p, m in walker.tree_models(root) if isinstance(m, models.Transaction)]
    if not cands:
        return []
    p, t = r.choice(cands)
    metaw, postw = t.raw_meta_with_comments, t.raw_postings_with_comments
    first = next((x for x in list(metaw) + list(postw) if hasattr(x, 'indent')), None)
    ind = (first.indent if first is not None else '') or '    '
    cs = [models.BlockComment.from_value(f'handed over {i}', indent=ind) for i in range(r.randint(2, 3))]
    from_meta = r.random() < 0.6
    src, dst = (metaw, postw) if from_meta else (postw, metaw)
    sname, dname = ('meta', 'postings') if from_meta else ('postings', 'meta')
    out = []

    def op(desc, fn):
        out.append(Op('claim:multi', f'[{p}] {desc}', root, '$', lambda: [], fn))
    for i, c in enumerate(cs):
        if from_meta:
            op(f'{sname} list: append comment #{i}', lambda c=c: src.append(c))
        else:
            op(f'{sname} list: insert comment #{i} at {i}', lambda c=c, i=i: src.insert(i, c))
    op(f'{sname} list: unclaim the {len(cs)} comments', lambda: src.unclaim_interleaving_comments(cs))
    op(f'{dname} list: claim_interleaving_comments()', dst.claim_interleaving_comments)
    if r.random() < 0.5:
        op(f'{dname} list: unclaim_interleaving_comments()', dst.unclaim_interleaving_comments)
        op(f'{sname} list: claim_interleaving_comments()', src.claim_interleaving_comments)
    last = r.choice(['clear-dst', 'clear-src', 'pop-dst', 'auto'])
    if last == 'clear-dst':
        op(f'{dname} list: clear()', dst.clear)
    elif last == 'clear-src':
        op(f'{sname} list: clear()', src.clear)
    elif last == 'pop-dst':
        op(f'{dname} list: pop(0)', lambda: dst.pop(0) if len(dst) else None)
    else:
        op('transaction.auto_claim_comments()', t.auto_claim_comments)
    return out


def assign_then_claim_ops(root, r):
    """A transaction is given a deep copy of another transaction's postings (or meta) list, a comment next to it is released by its
    owner, and the assigned list is asked to claim what it can reach: it must stay within the transaction it now belongs to."""
    from autobean_refactor.models.internal.surrounding_comments import SurroundingCommentsMixin
    txns = [(p, m) for p, m in walker.tree_models(root) if isinstance(m, models.Transaction)]
    if not txns:
        return []
    pb, b = r.choice(txns)
    donor = common.parser().parse('2000-01-01 * "donor"\n  dd: 1\n  ; a comment of the donor\n  Assets:Donor  1 USD\n  Assets:Other\n', models.File)
    pa, a = r.choice([t for t in txns if t[1] is not b] + [('<donor>', donor.directives[0])])
    attr = r.choice(['raw_postings_with_comments', 'raw_postings_with_comments', 'raw_meta_with_comments'])
    out = []

    def op(desc, fn):
        out.append(Op('claim:assign', f'[{pb}] {desc}', root, '$', lambda: [], fn))
    op(f'{attr} = deepcopy({pa}.{attr})', lambda: setattr(b, attr, copy.deepcopy(getattr(a, attr))))
    sibs = [m for _, m in walker.tree_models(root) if isinstance(m, SurroundingCommentsMixin) and m is not b]
    for m in r.sample(sibs, min(3, len(sibs))):
        op('a neighbour releases its leading comment', m.unclaim_leading_comment)
    op('releases its own trailing comment', b.unclaim_trailing_comment)
    op(f'{attr}.claim_interleaving_comments()', lambda: getattr(b, attr).claim_interleaving_comments())
    if r.random() < 0.5:
        op('file.auto_claim_comments()', root.auto_claim_comments)
    return out


def new_neighbour_claims_ops(root, r):
    """A comment that one owner has claimed by stepping over a list placeholder (a meta item's trailing comment in front of the
    postings list, a list's last standalone comment ...) is released; a *new* model is put next to it on the other side of that
    placeholder and claims it: the scan that walks backwards from the new model meets the placeholder the earlier claim moved."""
    txns = [(p, m) for p, m in walker.tree_models(root) if isinstance(m, models.Transaction)]
    r.shuffle(txns)
    for p, t in txns:
        items = list(t.raw_meta)
        if not items:
            continue
        last = items[-1]
        out = []

        def op(desc, fn):
            out.append(Op('claim:new-neighbour', f'[{p}] {desc}', root, '$', lambda: [], fn))
        ind = last.indent or '    '
        if vars(last).get('_trailing_comment') is None:
            # give it one first (claimed forwards: the postings placeholder ends up behind the comment)
            c = models.BlockComment.from_value('handed on', indent=ind)
            op('last meta item: raw_trailing_comment = <new comment>', lambda: setattr(last, 'raw_trailing_comment', c))
        op('last meta item releases its trailing comment', last.unclaim_trailing_comment)
        if r.random() < 0.3:
            op('... claims it again, releases it again', lambda: (last.claim_trailing_comment(), last.unclaim_trailing_comment()))
        new = models.Posting.from_value('Assets:New', D(1), 'USD', indent=ind)
        op('raw_postings_with_comments.insert(0, <new posting>)', lambda: t.raw_postings_with_comments.insert(0, new))
        op('the new posting: claim_leading_comment()', new.claim_leading_comment)
        if r.random() < 0.5:
            op('the new posting: unclaim_leading_comment(); the meta item claims its trailing comment again',
               lambda: (new.unclaim_leading_comment(), last.claim_trailing_comment()))
        return out
    return []
