"""Grammar-directed random document text. Acceptance is always decided by the real parse(); this generator only
has to make accepted documents *likely* and diverse (see DESIGN.md Appendix B)."""

ACCTS = ['Assets:Foo', 'Assets:Bar:Baz', 'Expenses:Food', 'Équity:Ünï', 'Liabilities:C-1', 'Income:A1:2b']
CURS = ['USD', 'EUR', 'GBP', "A'B.C-D", '/XYZ', 'AB', 'X9']


class Profile:
    def __init__(self, hostile=False, crlf=True, comments=1.0, max_directives=6, kinds=None, blank=True, abut=True):
        self.hostile = hostile
        self.crlf = crlf
        self.comments = comments
        self.max_directives = max_directives
        self.kinds = kinds
        self.blank = blank
        self.abut = abut     # allow `100.00USD`, `USD,EUR`, `;x` right after a token


DEFAULT = Profile()
LF_ONLY = Profile(crlf=False)
SPACED = Profile(abut=False)
SPACED_LF = Profile(crlf=False, abut=False)
HOSTILE = Profile(hostile=True)


def ws(r):
    return r.choice([' ', ' ', '  ', '\t', ' \t ', '   ', '     ', '\t\t  \t', '        '])


def nl(r, p=DEFAULT):
    # now and then a line ends in trailing blanks (they sit between the last token and the zero-width end-of-line mark)
    tail = r.choice(['  ', '\t', ' ']) if r.random() < 0.08 else ''
    if not p.crlf:
        return tail + '\n'
    return tail + r.choice(['\n', '\n', '\n', '\n', '\r\n', '\r\r\n' if p.hostile else '\r\n'])


def s(r, p=DEFAULT):
    base = ['"foo"', '"a b"', '"multi\nline"', '""', '"q\\"uote"', '"bs\\\\"', '"uni ü"', '"x\\ny"', '"; not a comment"', '"tab\there"']
    if p.hostile:
        base += ['"ff\x0cvt\x0b"', '"nel\x85ls "', '"nul\x00"', '"cr\rlf\r\n"']
    return r.choice(base)


def num(r):
    # (the lexeme is the number: leading zeros and trailing zeros are part of it)
    # zero is a number like any other (a falsy one, for code that tests a child by truthiness)
    return r.choice(['1', '100.00', '1,234.56', '0.5', '3.', '12', '0', '1,000,000', '1', '12', '007', '00.50', '0042', '1.500', '0', '0.00'])


def expr(r, d=0):
    k = r.random()
    if d > 2 or k < 0.5:
        return num(r)
    if k < 0.53:
        return r.choice(['(1 - 1)', '2 - 2', '0 * 5', '-0'])      # zero-valued without being the numeral 0
    if k < 0.6:
        return r.choice('-+') + expr(r, d + 1)
    if k < 0.7:
        return '(' + r.choice(['', ' ']) + expr(r, d + 1) + r.choice(['', ' ']) + ')'
    op = r.choice(['+', '-', '*', '/'])
    sp = r.choice(['', ' '])
    if op == '/':
        # never a zero divisor: evaluating the value of such an expression raises, which is no property's business here
        right = r.choice(['1', '100.00', '1,234.56', '0.5', '3.', '12', '(12)', '-3'])
        return expr(r, d + 1) + sp + op + sp + right
    return expr(r, d + 1) + sp + op + sp + expr(r, d + 1)


def date(r, p=DEFAULT):
    c = ['2000-01-01', '2012/12/31', '1999-1-2', '2024-02-29']
    if p.hostile:
        c.append('20000-01-01')
    return r.choice(c)


def tagl(r):
    return r.choice(['#tag', '^link', '#a-b/c.d', '^l_1', '#T2'])


def icomment(r, p=DEFAULT):
    if r.random() > p.comments:
        return ''
    return r.choice(['', '', '', ws(r) + '; inline', ';x' if p.abut else ' ;x', ws(r) + ';  two  ', ' ;', ' ; ü "q'])


def metaval(r, p=DEFAULT):
    return r.choice([s(r, p), r.choice(ACCTS), date(r, p), r.choice(CURS), '#tag', 'TRUE', 'FALSE', 'NULL', expr(r),
                     expr(r) + ws(r) + r.choice(CURS), ''])


def bcomment(r, ind, p=DEFAULT):
    n = r.randint(1, 3)
    bodies = [';', '; c', ';c', ';  cc ', '; ;;', '; ü']
    if p.hostile:
        bodies += ['; ff\x0cx', '; nel\x85', '; ls x']
    return ''.join(ind + r.choice(bodies) + nl(r, p) for _ in range(n))


def meta(r, ind, p=DEFAULT):
    out = ''
    for _ in range(r.randint(0, 3)):
        if r.random() < 0.3 * p.comments:
            out += bcomment(r, ind, p)
        v = metaval(r, p)
        out += ind + r.choice(['foo:', 'bar-1:', 'a_b:', 'xY9:']) + (ws(r) + v if v else '') + icomment(r, p) + nl(r, p)
        if p.blank and r.random() < 0.1:
            out += r.choice(['', '  ', '\t']) + nl(r, p)  # blank / whitespace-only line
    return out


def cost(r, p=DEFAULT):
    comps = r.sample([expr(r), r.choice(CURS), expr(r) + ' ' + r.choice(CURS), date(r, p), s(r, p), '*',
                      expr(r) + ' # ' + expr(r) + ' ' + r.choice(CURS), '# ' + expr(r) + ' USD', expr(r) + ' # USD'],
                     r.randint(0, 3))
    if r.random() < 0.2:
        # number and currency as separate components, in any order and with anything between them
        comps = [expr(r), r.choice(CURS)] + r.sample([date(r, p), s(r, p), '*'], r.randint(0, 2))
        r.shuffle(comps)
    body = r.choice([', ', ',', ' , '] if p.abut else [', ', ' , ']).join(comps)
    return r.choice(['{' + body + '}', '{{' + body + '}}', '{ ' + body + ' }'])


def posting(r, ind, p=DEFAULT):
    out = ind
    if r.random() < 0.3:
        out += r.choice('*!&#?%PSTCURM') + ws(r)
    out += r.choice(ACCTS)
    k = r.random()
    if k < 0.7:
        out += ws(r) + expr(r) + r.choice([ws(r), ws(r), '' if p.abut else ' ']) + r.choice(CURS)
    elif k < 0.8:
        out += ws(r) + expr(r)
    elif k < 0.9:
        out += ws(r) + r.choice(CURS)
    if r.random() < 0.3:
        out += ws(r) + cost(r, p)
    if r.random() < 0.3:
        out += ws(r) + r.choice(['@', '@@']) + r.choice(['', ws(r) + expr(r) + ws(r) + r.choice(CURS), ws(r) + expr(r), ws(r) + r.choice(CURS)])
    out += icomment(r, p) + nl(r, p)
    if r.random() < 0.3:
        out += meta(r, ind + r.choice(['  ', '\t', '    ']), p)
    return out


KINDS = ['option', 'include', 'plugin', 'pushtag', 'poptag', 'pushmeta', 'popmeta', 'balance', 'close', 'commodity', 'pad',
         'event', 'query', 'price', 'note', 'document', 'open', 'custom', 'txn', 'txn', 'txn', 'ignored']


def directive(r, p=DEFAULT, kind=None):
    k = kind or r.choice(p.kinds or KINDS)
    w = lambda: ws(r)
    ind = r.choice(['  ', '    ', '\t', ' '])
    ic = lambda: icomment(r, p)
    if k == 'option':
        return 'option' + w() + s(r, p) + w() + s(r, p) + ic() + nl(r, p)
    if k == 'include':
        return 'include' + w() + s(r, p) + ic() + nl(r, p)
    if k == 'plugin':
        return 'plugin' + w() + s(r, p) + r.choice(['', w() + s(r, p)]) + ic() + nl(r, p)
    if k == 'pushtag':
        return 'pushtag' + w() + '#t' + ic() + nl(r, p)
    if k == 'poptag':
        return 'poptag' + w() + '#t' + ic() + nl(r, p)
    if k == 'pushmeta':
        v = metaval(r, p)
        return 'pushmeta' + w() + 'k1:' + (w() + v if v else '') + ic() + nl(r, p)
    if k == 'popmeta':
        return 'popmeta' + w() + 'k1:' + ic() + nl(r, p)
    if k == 'ignored':
        return r.choice(['* org heading', ': x', '# y', '! z', 'P foo', '*', '** nested ; x']) + nl(r, p)
    d = date(r, p)
    if k == 'balance':
        h = d + w() + 'balance' + w() + r.choice(ACCTS) + w() + expr(r) + r.choice(['', w() + '~' + w() + expr(r), ('~' if p.abut else ' ~ ') + expr(r)]) + r.choice([w(), '' if p.abut else ' ']) + r.choice(CURS)
    elif k == 'close':
        h = d + w() + 'close' + w() + r.choice(ACCTS)
    elif k == 'commodity':
        h = d + w() + 'commodity' + w() + r.choice(CURS)
    elif k == 'pad':
        h = d + w() + 'pad' + w() + r.choice(ACCTS) + w() + r.choice(ACCTS)
    elif k == 'event':
        h = d + w() + 'event' + w() + s(r, p) + w() + s(r, p)
    elif k == 'query':
        h = d + w() + 'query' + w() + s(r, p) + w() + s(r, p)
    elif k == 'price':
        h = d + w() + 'price' + w() + r.choice(CURS) + w() + expr(r) + w() + r.choice(CURS)
    elif k == 'note':
        h = d + w() + 'note' + w() + r.choice(ACCTS) + w() + s(r, p) + ''.join(w() + tagl(r) for _ in range(r.randint(0, 2)))
    elif k == 'document':
        h = d + w() + 'document' + w() + r.choice(ACCTS) + w() + s(r, p) + ''.join(w() + tagl(r) for _ in range(r.randint(0, 2)))
    elif k == 'open':
        h = d + w() + 'open' + w() + r.choice(ACCTS) + r.choice(['', w() + 'USD', w() + ('USD,EUR' if p.abut else 'USD, EUR'), w() + 'USD , EUR,  GBP']) + r.choice(['', w() + '"STRICT"'])
    elif k == 'custom':
        h = d + w() + 'custom' + w() + s(r, p) + ''.join(
            w() + r.choice([s(r, p), date(r, p), 'TRUE', expr(r) + ' USD', expr(r), r.choice(ACCTS)]) for _ in range(r.randint(0, 3)))
    elif k == 'txn':
        h = d + w() + r.choice(['*', '!', 'txn', 'P']) + r.choice(['', w() + s(r, p), w() + s(r, p) + w() + s(r, p)]) + ''.join(
            w() + tagl(r) for _ in range(r.randint(0, 2)))
        out = h + ic() + nl(r, p) + meta(r, ind, p)
        for _ in range(r.randint(0, 3)):
            if r.random() < 0.25 * p.comments:
                out += bcomment(r, ind, p)
            out += posting(r, ind, p)
        if r.random() < 0.2 * p.comments:
            out += bcomment(r, ind, p)
        return out
    else:
        raise ValueError(k)
    return h + ic() + nl(r, p) + meta(r, ind, p)


def document(r, p=DEFAULT, n=None):
    out = ''
    for _ in range(n if n is not None else r.randint(0, p.max_directives)):
        k = r.random()
        if k < 0.2 * p.comments:
            out += bcomment(r, r.choice(['', '', '  ']), p)
        elif k < 0.35 and p.blank:
            out += r.choice(['', ' ', '\t  ', '      ', ' \t \t ']) + nl(r, p)
        else:
            out += directive(r, p)
    if out and r.random() < 0.3:
        out = out.rstrip('\r\n')
    return out


def accepted_document(r, parser, p=DEFAULT, n=None, tries=20, **kw):
    """Returns (text, file) for the first generated text the real parser accepts, or (None, None)."""
    from autobean_refactor import models
    for _ in range(tries):
        t = document(r, p, n)
        try:
            return t, parser.parse(t, models.File, **kw)
        except Exception:
            continue
    return None, None


# --- comment layouts (C14, C04): comment runs in every position relative to directives, postings and meta items -------------

def _crun(r, ind, nl_='\n'):
    n = r.choice([1, 1, 2])
    return ''.join(ind + r.choice([';', '; c', ';c', '; two words', '; ;;']) + nl_ for _ in range(n))


def layout_document(r, crlf=False):
    """Documents built line by line with a comment run (matching or mismatching indentation, optionally blank-separated)
    offered at every boundary."""
    e = '\r\n' if crlf else '\n'
    out = []

    def maybe_comment(ind, p=0.45):
        if r.random() < p:
            k = r.random()
            if k < 0.15:
                out.append(e)                       # blank line above
            cind = ind if r.random() < 0.8 else ('' if ind else '  ')   # mismatching indentation class
            out.append(_crun(r, cind, e))
            if r.random() < 0.15:
                out.append(r.choice(['', '  ']) + e)  # blank / whitespace-only line below
            if r.random() < 0.2:
                out.append(_crun(r, ind if r.random() < 0.7 else ('' if ind else '    '), e))

    maybe_comment('', 0.5)
    for _ in range(r.randint(1, 4)):
        kind = r.choice(['open', 'txn', 'txn', 'txn', 'close', 'note', 'option', 'balance', 'pushtag', 'ignored'])
        ic = r.choice(['', '', ' ; i'])
        ind = r.choice(['  ', '    ', '\t'])
        if kind == 'option':
            out.append('option "a" "b"' + ic + e)
        elif kind == 'pushtag':
            out.append('pushtag #t' + ic + e)
        elif kind == 'ignored':
            out.append('* heading' + e)
        else:
            head = {'open': '2000-01-01 open Assets:Foo USD', 'close': '2000-01-02 close Assets:Foo',
                    'note': '2000-01-03 note Assets:Foo "n" #t', 'balance': '2000-01-04 balance Assets:Foo 1 USD',
                    'txn': '2000-01-05 * "p" "n"'}[kind]
            out.append(head + ic + e)
            nmeta = r.choice([0, 0, 1, 2])
            for i in range(nmeta):
                maybe_comment(ind, 0.35)
                out.append(ind + f'k{i}: "v"' + r.choice(['', ' ; i']) + e)
            if kind == 'txn':
                npost = r.choice([0, 0, 1, 2, 3])
                for i in range(npost):
                    maybe_comment(ind, 0.35)
                    out.append(ind + r.choice(['', '! ']) + f'Assets:P{i}  {i + 1} USD' + r.choice(['', ' ; i']) + e)
                    for j in range(r.choice([0, 0, 1, 2])):
                        maybe_comment(ind + '  ', 0.35)
                        out.append(ind + '  ' + f'm{j}: 1' + e)
                    if r.random() < 0.25:
                        out.append(_crun(r, ind + '  ', e))
            maybe_comment(ind, 0.35)          # inside the block, before the dedent
        if r.random() < 0.3:
            out.append(e)
        maybe_comment('', 0.45)
    text = ''.join(out)
    if r.random() < 0.25:
        text = text.rstrip('\r\n')
    return text


def accepted_layout(r, parser, tries=20, **kw):
    from autobean_refactor import models
    for _ in range(tries):
        t = layout_document(r, crlf=r.random() < 0.2)
        try:
            return t, parser.parse(t, models.File, **kw)
        except Exception:
            continue
    return None, None
