"""In-domain value generators per token class (domains as narrowed in DESIGN.md C12)."""
import datetime
import decimal

from . import common  # noqa: F401
from autobean_refactor import models

D = decimal.Decimal

_STR_ATOMS = ['x', 'a b', '"', '\\', '\n', '\t', 'ü', '€', ';', '#', '', 'q"q', '\\n', '\r\n', '\x0c', '\x0b', '\x85', ' ',
              ' ', '\x00', '\x1c', 'long long text', "'", '\\\\', '\\"']


def rstring(r, hostile=True):
    k = r.randint(0, 4)
    atoms = _STR_ATOMS if hostile else _STR_ATOMS[:12]
    return ''.join(r.choice(atoms) for _ in range(k))


def rline(r, hostile=True):
    """A string without CR/LF (one comment line)."""
    atoms = ['c', ' c', 'a  b', ';', '; ;', 'ü', '"', '\\', '', ' ', '\t']
    if hostile:
        atoms += ['\x0c', '\x0b', '\x85', ' ', ' ', '\x1c', '\x1d', '\x1e', '\x00']
    return ''.join(r.choice(atoms) for _ in range(r.randint(0, 3)))


def rblock_comment_value(r, hostile=True):
    n = r.randint(1, 3)
    return ''.join(rline(r, hostile) + r.choice(['\n', '\n', '\r\n', '\r\r\n']) for _ in range(n - 1)) + rline(r, hostile)


def rinline_comment_value(r, hostile=True):
    v = rline(r, hostile)
    return v if r.random() < 0.5 else r.choice([' ', '  ', '   ']) + v     # leading blanks are part of the value


def rdate(r):
    k = r.random()
    if k < 0.2:
        # (years below 1000 need zero padding, year 9999 is the last one)
        return r.choice([datetime.date.min, datetime.date.max, datetime.date(999, 12, 31), datetime.date(1000, 1, 1), datetime.date(1, 2, 3), datetime.date(33, 4, 3)])
    return datetime.date.fromordinal(r.randint(datetime.date(1, 1, 1).toordinal(), datetime.date.max.toordinal())) if k < 0.4 \
        else datetime.date(r.randint(1900, 2100), r.randint(1, 12), r.randint(1, 28))


def rnumber(r):
    """Finite non-negative Decimal (any exponent: small fractions and exponent-form values included)."""
    k = r.random()
    if k < 0.08:
        # more significant digits than the default decimal context keeps (28): storing and reading a value involves no arithmetic
        return D(f'{r.randint(10 ** 28, 10 ** r.randint(29, 40))}E-{r.randint(0, 30)}')     # (scaleb would round to the context)
    if k < 0.3:
        return D(r.randint(0, 10 ** r.randint(0, 12)))
    if k < 0.4:
        return r.choice([D('1E+3'), D('0E-7'), D('0.0000009990'), D('9.0E-11'), D('12E+1'), D('0.000000'), D('1E-7')])
    return D(r.randint(0, 10 ** r.randint(1, 10))).scaleb(-r.randint(0, 14))


def rsigned(r):
    v = rnumber(r)
    if r.random() < 0.03:
        return r.choice([D('-0'), D('-0.00'), D('-0E+2')])       # negative zeros (what rounding a tiny negative amount gives)
    return v.copy_negate() if r.random() < 0.3 and v != 0 else v


ACCOUNTS = ['Assets:New', 'Income:Ü:X', 'Expenses:A-1:B2', 'Liabilities:Z', 'Équity:Ö']
CURRENCIES = ['NEW', 'AB.C', "X'Y", '/ZZ', 'USD', 'EUR', 'C9']


def value_for(r, tok_or_cls, hostile=True):
    """An in-domain replacement value for a token (or class); None if the class has no value generator."""
    cls = tok_or_cls if isinstance(tok_or_cls, type) else type(tok_or_cls)
    name = cls.__name__
    if name == 'EscapedString':
        return rstring(r, hostile)
    if name == 'Account':
        return r.choice(ACCOUNTS)
    if name == 'Currency':
        return r.choice(CURRENCIES)
    if name == 'Date':
        return rdate(r)
    if name == 'Number':
        return rnumber(r)
    if name == 'Tag':
        return r.choice(['newtag', 'a-b_c/d.e', 'T'])
    if name == 'Link':
        return r.choice(['newlink', 'l-1_2/3.4'])
    if name == 'MetaKey':
        return r.choice(['newkey', 'k9-_x', 'ab'])
    if name == 'Bool':
        return r.choice([True, False])
    if name == 'InlineComment':
        return rinline_comment_value(r, hostile)
    if name == 'BlockComment':
        return rblock_comment_value(r, hostile)
    if name == 'TransactionFlag':
        return r.choice(['*', '!', 'P', '#', '?'])
    if name == 'PostingFlag':
        return r.choice(list('*!&#?%PSTCURM'))
    if name == 'Indent':
        return r.choice(['  ', '\t', '        ', ' ', ' \t'])
    return None


def respell(r, tok, style=None):
    """Another raw text for the token's *current* value (same meaning, different characters), or None."""
    name = type(tok).__name__
    raw = tok.raw_text
    try:
        if name == 'BlockComment':
            ind = tok.indent
            lines = tok.value.split('\n')
            style = style or r.choice(['tight', 'wide', 'ragged'])
            if style == 'ragged' and ind and len(lines) > 1:
                # an indented block comment may indent every line differently; the first line's blanks are the token's indent
                inds = [ind] + [r.choice([' ', '  ', '\t', '   \t', ind + ' ']) for _ in lines[1:]]
                return '\n'.join(f'{i}; {ln}' if ln.rstrip('\r') else f'{i};{ln}' for i, ln in zip(inds, lines))
            if style == 'tight' and all(not ln or not ln.startswith(' ') for ln in lines):
                return '\n'.join(f'{ind};{ln}' for ln in lines)          # ';foo' instead of '; foo'
            return '\n'.join(f'{ind}; {ln}' if ln.rstrip('\r') else f'{ind};{ln}' for ln in lines)
        if name == 'InlineComment':
            v = tok.value
            return r.choice([';' + v if not v.startswith(' ') else None, ';   ' + v, '; ' + v])
        if name == 'Date':
            d = tok.value
            return r.choice([f'{d.year:04d}/{d.month:02d}/{d.day:02d}', f'{d.year:04d}-{d.month}-{d.day}', f'{d.year:04d}-{d.month:02d}/{d.day:02d}'])
        if name == 'Number':
            v = tok.value
            s = str(v)
            if 'E' in s:
                return None
            ip, _, fp = s.partition('.')
            grouped = f'{int(ip):,}' + ('.' + fp if fp else '')
            return r.choice([grouped, s + ('.' if '.' not in s else '0'), s])
        if name == 'EscapedString':
            v = tok.value
            return '"' + models.EscapedString.escape(v, aggressive=True) + '"'
        if name == 'TransactionFlag' and tok.value == '*':
            return r.choice(['txn', '*'])
    except Exception:
        return None
    return None
