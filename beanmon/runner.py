"""Driver: shard subprocesses, merge, triage against known findings, evidence, verdict.

Exit codes: 0 held on everything explored (known findings printed), 1 VIOLATION, 2 INCONCLUSIVE.
"""
import collections
import importlib
import json
import os
import subprocess
import sys
import time
import traceback

from . import common

NSHARDS = int(os.environ.get('VERIF_SHARDS', '16'))
MAX_WITNESS_PER_MECH = 3


class Collector:
    """Per-shard recorder handed to every case."""

    def __init__(self, prop: str, seed: int, tier: str) -> None:
        self.prop, self.seed, self.tier = prop, seed, tier
        self.evaluations = 0
        self.distinct: set[str] = set()
        self.counters: collections.Counter = collections.Counter()
        self.skips: collections.Counter = collections.Counter()
        self.viol_counts: collections.Counter = collections.Counter()
        self.violations: list[dict] = []
        self.watchdog: list[dict] = []
        self.samples: list = []
        self.case_index = -1
        self.case_kind = 'case'

    # --- recording -----------------------------------------------------------------------------
    def ev(self, n: int = 1) -> None:
        self.evaluations += n

    DISTINCT_CAP = 1_000_000     # per shard: beyond it the count is a lower bound (counter distinct_cap_reached says so)

    def nontrivial(self, *key) -> None:
        if len(self.distinct) >= self.DISTINCT_CAP:
            self.counters['distinct_cap_reached_extra_cases_not_hashed'] += 1
            return
        self.distinct.add(common.h16(*key))

    def count(self, name: str, n: int = 1) -> None:
        self.counters[name] += n

    def skip(self, reason: str) -> None:
        self.skips[reason] += 1

    def sample(self, obj, cap: int = 4) -> None:
        if len(self.samples) < cap:
            self.samples.append(obj)

    def violation(self, mech: str, msg: str, witness: dict | None = None) -> None:
        """mech: mechanism key (deterministic classifier output, never a seed or a hash)."""
        self.viol_counts[mech] += 1
        if sum(1 for v in self.violations if v['mech'] == mech) < MAX_WITNESS_PER_MECH:
            self.violations.append({
                'mech': mech, 'msg': common.short(msg, 600),
                'case': {'kind': self.case_kind, 'index': self.case_index},
                'witness': _jsonable(dict(witness or {}, **({'store_block_size': self.load_factor} if getattr(self, 'load_factor', None) else {}))),
            })

    def dump(self) -> dict:
        return {
            'evaluations': self.evaluations, 'distinct': sorted(self.distinct),
            'counters': dict(self.counters), 'skips': dict(self.skips),
            'viol_counts': dict(self.viol_counts), 'violations': self.violations, 'watchdog': self.watchdog,
            'samples': _jsonable(self.samples),
        }


def _jsonable(x, depth: int = 0):
    if depth > 6:
        return common.short(x, 200)
    if isinstance(x, (str, int, float, bool)) or x is None:
        return common.short(x, 4000) if isinstance(x, str) else x
    if isinstance(x, dict):
        return {str(k): _jsonable(v, depth + 1) for k, v in x.items()}
    if isinstance(x, (list, tuple, set, frozenset)):
        return [_jsonable(v, depth + 1) for v in list(x)[:200]]
    return common.short(x, 400)


def load_check(prop: str):
    return importlib.import_module(f'beanmon.checks.{prop.lower()}')


def load_known() -> dict:
    path = os.path.join(common.VERIF_ROOT, 'known_findings.json')
    if not os.path.exists(path):
        return {'findings': [], 'fixed': []}
    with open(path) as f:
        return json.load(f)


# --- shard side ------------------------------------------------------------------------------------

def run_shard(prop: str, tier: str, seed: int, shard: int, nshards: int, out: str, only_case=None) -> None:
    import faulthandler
    faulthandler.enable()
    from . import reach
    reach_on = reach.start(prop)
    mod = load_check(prop)
    col = Collector(prop, seed, tier)
    t0 = time.time()
    crashed = None
    try:
        if hasattr(mod, 'setup'):
            mod.setup(col)
        if only_case is not None:
            kind, idx = only_case
            _run_one(mod, col, kind, idx)
        else:
            if shard == 0 and hasattr(mod, 'PINNED'):
                for i in range(len(mod.PINNED)):
                    _run_one(mod, col, 'pinned', i)
            if shard == nshards - 1 and tier == 'thorough' and hasattr(mod, 'THOROUGH_EXTRA'):
                for name, fn in mod.THOROUGH_EXTRA:
                    col.case_kind, col.case_index = 'extra', 0
                    fn(col)
            n = mod.CASES[tier] if isinstance(mod.CASES, dict) else mod.CASES(tier)
            for idx in range(shard, n, nshards):
                _run_one(mod, col, 'case', idx)
        if hasattr(mod, 'teardown'):
            mod.teardown(col)
    except BaseException:  # harness failure: inconclusive, never a verdict
        crashed = traceback.format_exc()
    d = col.dump()
    d['reach'] = reach.stop() if reach_on else {}
    d['crashed'] = crashed
    d['wall_s'] = time.time() - t0
    with open(out, 'w') as f:
        json.dump(d, f)


class CaseTimeout(BaseException):
    """Raised by the per-case wall-clock watchdog (BaseException: check code catching Exception must not swallow it)."""


CASE_LIMIT_S = {'quick': int(os.environ.get('BEANMON_CASE_LIMIT', 120)), 'thorough': int(os.environ.get('BEANMON_CASE_LIMIT', 300))}


def _on_alarm(signum, frame):
    raise CaseTimeout()


def _run_one(mod, col: Collector, kind: str, idx: int) -> None:
    """One case under a generous wall-clock watchdog. A case normally takes milliseconds; one that is still running after minutes is
    looping (typically library code walking a corrupted store). That is not a verdict on the property: the case is abandoned,
    reported with the place it was stuck at, and the run ends INCONCLUSIVE unless other cases produced violations."""
    import signal
    signal.signal(signal.SIGALRM, _on_alarm)
    signal.setitimer(signal.ITIMER_REAL, CASE_LIMIT_S.get(col.tier, 300))
    try:
        _run_one_inner(mod, col, kind, idx)
    except CaseTimeout:
        tb = traceback.format_exc()
        col.watchdog.append({'case': {'kind': kind, 'index': idx}, 'stuck_at': tb[-1200:]})
        from . import storemodel
        storemodel.set_load_factor(1000)
    finally:
        signal.setitimer(signal.ITIMER_REAL, 0)


def _run_one_inner(mod, col: Collector, kind: str, idx: int) -> None:
    col.case_kind, col.case_index = kind, idx
    if kind == 'pinned':
        name, fn = mod.PINNED[idx]
        col.count('pinned_witnesses_run')
        fn(col)
    else:
        rng = common.rng_for(col.seed, col.prop, idx)
        sb = getattr(mod, 'SMALL_BLOCKS', 0)
        if sb and idx % sb == sb - 1:
            # every sb-th case of this check runs with all its token stores in 2..10-token blocks (block boundaries everywhere)
            from . import storemodel
            col.load_factor = (2, 3, 5, 10)[(idx // sb) % 4]
            storemodel.set_load_factor(col.load_factor)
            col.count('cases_in_small_blocks')
            try:
                mod.run_case(col, rng, idx)
            finally:
                storemodel.set_load_factor(1000)
                col.load_factor = None
        else:
            mod.run_case(col, rng, idx)


# --- driver side -----------------------------------------------------------------------------------

def drive(prop: str, tier: str, seed: int, replay: str | None = None) -> int:
    t0 = time.time()
    mod = load_check(prop)
    outdir = os.path.join(common.VERIF_ROOT, 'out')
    os.makedirs(os.path.join(outdir, 'replays'), exist_ok=True)
    os.makedirs(os.path.join(outdir, 'shards'), exist_ok=True)
    env = dict(os.environ, PYTHONHASHSEED='0', PYTHONUTF8='1', PYTHONDONTWRITEBYTECODE='1',
               PYTHONPATH=common.VERIF_ROOT)
    env[common.GUARD] = '1'
    jobs = []
    if replay:
        with open(replay) as f:
            rp = json.load(f)
        tier, seed = rp['tier'], rp['seed']
        spec = [(0, 1, (rp['case']['kind'], rp['case']['index']))]
    else:
        nsh = max(1, min(NSHARDS, getattr(mod, 'MAX_SHARDS', NSHARDS)))
        spec = [(i, nsh, None) for i in range(nsh)]
    watchdog = getattr(mod, 'WATCHDOG_S', {'quick': 1500, 'thorough': 6 * 3600})[tier]
    for shard, nsh, only in spec:
        out = os.path.join(outdir, 'shards', f'{prop}-{tier}-{seed}-{shard}-{os.getpid()}.json')
        if os.path.exists(out):
            os.remove(out)
        cmd = [sys.executable, '-m', 'beanmon.shardmain', prop, tier, str(seed), str(shard), str(nsh), out]
        if only:
            cmd += [only[0], str(only[1])]
        jobs.append((shard, out, subprocess.Popen(cmd, env=env, cwd=common.VERIF_ROOT,
                                                  stdout=subprocess.PIPE, stderr=subprocess.STDOUT, text=True)))
    parts, problems = [], []
    deadline = time.time() + watchdog
    for shard, out, p in jobs:
        try:
            so, _ = p.communicate(timeout=max(1, deadline - time.time()))
        except subprocess.TimeoutExpired:
            p.kill()
            so, _ = p.communicate()
            problems.append(f'shard {shard} hit the wall-clock watchdog ({watchdog}s)')
            continue
        if p.returncode != 0 or not os.path.exists(out):
            problems.append(f'shard {shard} exited {p.returncode}: {common.short(so[-1500:], 1500)}')
            continue
        with open(out) as f:
            d = json.load(f)
        os.remove(out)
        for w in d.get('watchdog') or []:
            problems.append(f'shard {shard}: case {w["case"]} was abandoned by the per-case watchdog after {CASE_LIMIT_S[tier]}s; '
                            f'stuck at: {common.short(w["stuck_at"][-700:], 700)}')
        if d.get('crashed'):
            problems.append(f'shard {shard} harness exception: {common.short(d["crashed"][-1500:], 1500)}')
        parts.append(d)

    merged = merge(parts)
    if hasattr(mod, 'derive'):
        mod.derive(merged['counters'])
    known = load_known()
    known_keys = {k['key']: k for k in known.get('findings', []) if k['property'] == prop}
    new_viol, known_hit = [], collections.Counter()
    for mech, n in merged['viol_counts'].items():
        if mech in known_keys:
            known_hit[mech] += n
    for v in merged['violations']:
        if v['mech'] not in known_keys:
            new_viol.append(v)
    n_new = sum(n for m, n in merged['viol_counts'].items() if m not in known_keys)

    gates_failed = []
    if not replay:
        gates = getattr(mod, 'GATES', {}).get(tier, {})
        for name, minimum in gates.items():
            got = merged['evaluations'] if name == 'evaluations' else merged['counters'].get(name, 0)
            if got < minimum:
                gates_failed.append(f'{name}={got}<{minimum}')

    wall = time.time() - t0
    replay_paths = []
    for i, v in enumerate(new_viol[:10]):
        path = os.path.join(outdir, 'replays', f'{prop}-{tier}-seed{seed}-{i}.json' if common.REPO_ROOT == '/repo' else f'{prop}-{tier}-seed{seed}-{i}-alt{os.getpid()}.json')
        with open(path, 'w') as f:
            json.dump({'property': prop, 'tier': tier, 'seed': seed, **v}, f, indent=1)
        replay_paths.append(path)

    if not replay:
        write_evidence(mod, prop, tier, seed, merged, n_new, known_hit, problems, gates_failed, wall)

    for mech, n in sorted(known_hit.items()):
        print(f'KNOWN-FINDING: property={prop} {mech}: {known_keys[mech]["what"]} (observed {n}x this run)')
    print(f'[{prop}] tier={tier} seed={seed} evaluations={merged["evaluations"]} '
          f'distinct_nontrivial={len(merged["distinct"])} skips={sum(merged["skips"].values())} '
          f'violations={n_new} known={sum(known_hit.values())} wall={wall:.1f}s')
    if replay:
        for v in merged['violations']:
            print(json.dumps(v, indent=1)[:6000])
    if new_viol:
        for v, path in zip(new_viol, replay_paths):
            print(f'  mechanism={v["mech"]}: {v["msg"]}')
            print(f'VIOLATION property={prop} replay={path}')
        return 1
    if problems or gates_failed or merged['evaluations'] == 0:
        uniq = list(dict.fromkeys(p.split(': ', 1)[-1][-int(os.environ.get('BEANMON_PROBLEM_CHARS', '400')):] if p.startswith('shard') else p for p in problems))
        reason = '; '.join(uniq[:3] + gates_failed) or 'zero oracle evaluations'
        print(f'INCONCLUSIVE property={prop} reason={common.short(reason, 3000)}')
        return 2
    return 0


def _reach_summary(reach_sets) -> dict:
    """Per anchor file: executable lines inside functions that the workload ran / that exist, and the ones never reached."""
    from . import reach
    out = {}
    for fn, lines in sorted(reach_sets.items()):
        try:
            total = reach.executable_lines(os.path.join(os.path.abspath(common.REPO_ROOT), fn))
        except Exception:
            continue
        hit = set(lines) & total
        missed = sorted(total - hit)
        out[fn] = {'executed': len(hit), 'executable': len(total), 'not_reached': missed[:60]}
    return out


def merge(parts: list[dict]) -> dict:
    m = {'evaluations': 0, 'distinct': set(), 'counters': collections.Counter(), 'skips': collections.Counter(),
         'viol_counts': collections.Counter(), 'violations': [], 'samples': [], 'shard_wall': []}
    for d in parts:
        m['evaluations'] += d['evaluations']
        m['distinct'].update(d['distinct'])
        m['counters'].update(d['counters'])
        m['skips'].update(d['skips'])
        m['viol_counts'].update(d['viol_counts'])
        m['violations'].extend(d['violations'])
        if len(m['samples']) < 5:
            m['samples'].extend(d['samples'][:2])
        m['shard_wall'].append(round(d['wall_s'], 1))
        for fn, lines in d.get('reach', {}).items():
            m.setdefault('reach', {}).setdefault(fn, set()).update(lines)
    m['samples'] = m['samples'][:5]
    return m


def write_evidence(mod, prop, tier, seed, merged, n_new, known_hit, problems, gates_failed, wall) -> None:
    ev = {
        'property_id': prop, 'tier': tier, 'seed': seed, 'level': 'exploration',
        'coverage': {
            'evaluations': merged['evaluations'],
            'distinct_nontrivial': len(merged['distinct']),
            'rule': mod.RULE,
            'samples': merged['samples'] or ['(no sample recorded)'],
            'counters': dict(sorted(merged['counters'].items())),
            'skips': dict(sorted(merged['skips'].items())),
            'known_findings_observed': dict(known_hit),
            'gates_failed': gates_failed, 'harness_problems': problems,
            'shards': len(merged['shard_wall']), 'shard_wall_s': merged['shard_wall'],
            'repo_root': common.REPO_ROOT,
            'anchor_lines_executed': _reach_summary(merged.get('reach', {})),
        },
        'assumptions': getattr(mod, 'ASSUMPTIONS', []),
        'wall_s': round(wall, 2),
        'violations': n_new,
    }
    path = os.path.join(common.VERIF_ROOT, 'evidence', f'{prop}.json')
    if os.path.abspath(common.REPO_ROOT) != '/repo':
        path = os.path.join(common.VERIF_ROOT, 'out', f'evidence-alt-{prop}-{os.getpid()}.json')   # mutant self-tests never touch the real evidence
    os.makedirs(os.path.dirname(path), exist_ok=True)
    with open(path, 'w') as f:
        json.dump(ev, f, indent=1, sort_keys=True)
        f.write('\n')
