"""beanmon: runtime monitors, reference models and workloads for autobean-refactor (see /verif/DESIGN.md)."""
