"""Shared plumbing: locating the code under test, deterministic PRNGs, hashing, printing."""
import hashlib
import io
import os
import random
import sys

VERIF_ROOT = os.path.dirname(os.path.dirname(os.path.abspath(__file__)))
REPO_ROOT = os.environ.get('VERIF_REPO_ROOT', '/repo')
GUARD = 'AUTOBEAN_REFACTOR_VERIF'


def setup_repo_path() -> None:
    """Make `import autobean_refactor` resolve to REPO_ROOT's *working tree* (pure Python: a fresh
    interpreter is the rebuild)."""
    root = os.path.abspath(REPO_ROOT)
    if sys.path[:1] != [root]:
        sys.path.insert(0, root)
    sys.dont_write_bytecode = True


setup_repo_path()

_PARSER = None


def parser():
    global _PARSER
    if _PARSER is None:
        from autobean_refactor import parser as parser_lib
        _PARSER = parser_lib.Parser()
    return _PARSER


def pr(model) -> str:
    from autobean_refactor import printer
    return printer.print_model(model, io.StringIO()).getvalue()


def store_text(store) -> str:
    return ''.join(t.raw_text for t in store)


def h16(*key) -> str:
    return hashlib.blake2b(repr(key).encode('utf-8', 'surrogatepass'), digest_size=8).hexdigest()


def rng_for(seed: int, prop: str, index: int, salt: str = '') -> random.Random:
    d = hashlib.blake2b(f'{seed}/{prop}/{index}/{salt}'.encode(), digest_size=8).digest()
    return random.Random(int.from_bytes(d, 'big'))


def short(x, n: int = 300) -> str:
    s = x if isinstance(x, str) else repr(x)
    return s if len(s) <= n else s[:n] + f'...(+{len(s) - n})'
