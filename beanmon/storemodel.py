"""Reference model of the token store (M1/M2): a plain Python list mirrored from the *arguments* of each public
mutator, plus position recomputation from the shadow's current raw texts."""
from . import common  # noqa: F401
from autobean_refactor import token_store as ts


def set_load_factor(lf: int) -> None:
    ts._LOAD_FACTOR = lf
    ts._DOUBLE_LOAD_FACTOR = lf * 2
    ts._HALF_LOAD_FACTOR = lf // 2
    ts._ONE_HALF_LOAD_FACTOR = lf + lf // 2


def index_of(shadow: list, tok) -> int:
    for i, t in enumerate(shadow):
        if t is tok:
            return i
    raise LookupError('reference token not in shadow')


def expected_positions(shadow: list):
    line = col = 0
    out = []
    for t in shadow:
        out.append((line, col))
        s = t.raw_text
        k = s.count('\n')
        if k:
            line += k
            col = len(s) - s.rfind('\n') - 1
        else:
            col += len(s)
    return out


def compare_sequence(store, shadow: list, sample_pairs=()):
    """M1: returns None or (kind, message). Uses only the public behaviour named in C07."""
    try:
        got = list(store)
    except Exception as e:
        return ('iter-exc', f'iterating the store raised {type(e).__name__}: {e}')
    if len(got) != len(shadow) or any(a is not b for a, b in zip(got, shadow)):
        return ('iter', f'iteration differs from list: store has {len(got)} tokens, list has {len(shadow)}; '
                        f'first difference at {next((i for i, (a, b) in enumerate(zip(got, shadow)) if a is not b), min(len(got), len(shadow)))}')
    if len(store) != len(shadow):
        return ('len', f'len(store)={len(store)} list={len(shadow)}')
    first, last = store.get_first(), store.get_last()
    if shadow:
        if first is not shadow[0] or last is not shadow[-1]:
            return ('first-last', 'get_first/get_last disagree with the list')
    elif first is not None or last is not None:
        return ('first-last', 'empty store reports a first/last token')
    n = len(shadow)
    for i, t in enumerate(shadow):
        try:
            if t.store_handle is None or t.store_handle.block.store is not store:
                return ('membership', f'token {i} does not know its place (no handle / other store)')
            if store.get_prev(t) is not (shadow[i - 1] if i else None):
                return ('prev', f'get_prev wrong at {i}')
            if store.get_next(t) is not (shadow[i + 1] if i + 1 < n else None):
                return ('next', f'get_next wrong at {i}')
        except Exception as e:
            return ('walk-exc', f'next/prev at {i} raised {type(e).__name__}: {e}')
    for a, b in sample_pairs:
        try:
            sub = list(store.iter(shadow[a], shadow[b]))
        except Exception as e:
            return ('subrange-exc', f'iter({a},{b}) raised {type(e).__name__}: {e}')
        exp = shadow[a:b + 1]
        if len(sub) != len(exp) or any(x is not y for x, y in zip(sub, exp)):
            return ('subrange', f'iter({a},{b}) yields {len(sub)} tokens, list slice has {len(exp)}')
    return None


def compare_positions(store, shadow: list, indices=None):
    """M2: returns None or (kind, message)."""
    exp = expected_positions(shadow)
    rng = range(len(shadow)) if indices is None else indices
    for i in rng:
        t = shadow[i]
        try:
            p = store.get_position(t)
            gi = store.get_index(t)
        except Exception as e:
            return ('position-exc', f'get_position/get_index of token {i} raised {type(e).__name__}: {e}')
        if gi != i:
            return ('index', f'get_index={gi} ordinal={i}')
        if (p.line, p.column) != exp[i]:
            return ('position', f'token {i} {t.raw_text!r}: reported {(p.line, p.column)} expected {exp[i]}')
    return None
