"""Suite-under-monitor workload: the repository's own tests run with the universal monitors bound onto the library.

    AUTOBEAN_REFACTOR_VERIF=1 BEANMON_PLUGIN_OUT=<dir> pytest -p beanmon.pytest_plugin ...

M1/M2: every TokenStore gets a shadow list mirrored from the arguments of its public mutators (outermost call only); after each
mutator the store is compared with the list (sequence, len, first/last, next/prev, positions, indexes).
M3: whenever a model is printed, the tree invariants are checked on it (ownership counts only when the model spans its whole store).
Nothing is asserted inside the tests: findings are written to <dir>/plugin-<pid>.json and judged by the check that started pytest.
"""
import collections
import functools
import json
import os
import traceback

GUARD = 'AUTOBEAN_REFACTOR_VERIF'
STATS = collections.Counter()
FINDINGS = []
_depth = [0]


def _note(kind, msg, where):
    STATS['findings:' + kind] += 1
    if len(FINDINGS) < 40:
        FINDINGS.append({'kind': kind, 'msg': msg[:600], 'test': os.environ.get('PYTEST_CURRENT_TEST', '?'), 'where': where[-900:]})


def install():
    from . import storemodel, walker
    from autobean_refactor import token_store as ts, printer
    from autobean_refactor.models import base as mbase

    def shadow_of(store):
        return store.__dict__.get('_beanmon_shadow')

    def check(store, what):
        sh = shadow_of(store)
        if sh is None:
            return
        STATS['m1_comparisons'] += 1
        n = len(sh)
        if n > 4000 and STATS['m1_comparisons'] % 25:
            return
        v = storemodel.compare_sequence(store, sh) or storemodel.compare_positions(store, sh, None if n <= 1500 else range(0, n, 7))
        if v:
            _note('M1:' + v[0] + ':' + what, v[1], ''.join(traceback.format_stack(limit=8)))
            store.__dict__.pop('_beanmon_shadow', None)     # one report per store

    def mirrored(name, mirror):
        orig = getattr(ts.TokenStore, name)

        @functools.wraps(orig)
        def wrapper(self, *a, **k):
            outer = _depth[0] == 0
            sh = shadow_of(self) if outer else None
            plan = None
            if sh is not None:
                try:
                    plan = mirror(sh, *a, **k)
                except LookupError:
                    plan = None
                    self.__dict__.pop('_beanmon_shadow', None)
            _depth[0] += 1
            try:
                r = orig(self, *a, **k)
            finally:
                _depth[0] -= 1
            if outer and plan is not None:
                lo, hi, new = plan
                sh[lo:hi] = new
                STATS['store_mutators_mirrored'] += 1
                check(self, name)
            return r
        setattr(ts.TokenStore, name, wrapper)

    def idx(sh, tok):
        return storemodel.index_of(sh, tok)

    def m_splice(sh, tokens, ref, del_end=None):
        lo = 0 if ref is None else idx(sh, ref)
        hi = lo if del_end is None else idx(sh, del_end) + 1
        return lo, hi, list(tokens)

    def m_insert_after(sh, ref, tokens):
        lo = 0 if ref is None else idx(sh, ref) + 1
        return lo, lo, list(tokens)

    def m_insert_before(sh, ref, tokens):
        lo = 0 if ref is None else idx(sh, ref)
        return lo, lo, list(tokens)

    def m_remove(sh, start, end=None):
        lo = idx(sh, start)
        hi = idx(sh, end or start) + 1
        return lo, hi, []

    def m_replace(sh, token, repl):
        lo = idx(sh, token)
        return lo, lo + 1, [repl]

    for name, mirror in (('splice', m_splice), ('insert_after', m_insert_after), ('insert_before', m_insert_before),
                         ('remove', m_remove), ('replace', m_replace)):
        mirrored(name, mirror)

    orig_from = ts.TokenStore.from_tokens.__func__

    def from_tokens(cls, tokens):
        tokens = list(tokens)
        store = orig_from(cls, tokens)
        store.__dict__['_beanmon_shadow'] = list(tokens)
        STATS['stores_tracked'] += 1
        if _depth[0] == 0:
            check(store, 'from_tokens')
        return store
    ts.TokenStore.from_tokens = classmethod(from_tokens)

    orig_update = ts.Token._update_raw_text

    def _update_raw_text(self, value):
        r = orig_update(self, value)
        if _depth[0] == 0 and self.store_handle is not None:
            STATS['text_updates_seen'] += 1
            check(self.store_handle.block.store, 'update')
        return r
    ts.Token._update_raw_text = _update_raw_text

    orig_print = printer.print_model

    def print_model(model, file):
        r = orig_print(model, file)
        try:
            if isinstance(model, mbase.RawTreeModel) and model.token_store is not None:
                st = model.token_store
                whole = model.first_token is st.get_first() and model.last_token is st.get_last()
                errs = walker.check_tree(model)
                if not whole:
                    errs = [e for e in errs if e[0] not in ('token-owners', 'claimed-comment-owners')]
                STATS['m3_checks_at_print'] += 1
                if errs:
                    _note('M3:' + errs[0][0], f'{type(model).__name__}: {errs[0][1]}', '')
        except Exception as e:  # a checker fault is a harness problem, reported as such
            _note('harness', f'{type(e).__name__}: {e}', traceback.format_exc())
        return r
    printer.print_model = print_model
    try:
        from autobean_refactor import editor
        editor.printer.print_model = print_model
    except Exception:
        pass


def pytest_configure(config):
    if os.environ.get(GUARD) == '1':
        install()


def pytest_sessionfinish(session, exitstatus):
    out = os.environ.get('BEANMON_PLUGIN_OUT')
    if out and os.environ.get(GUARD) == '1':
        os.makedirs(out, exist_ok=True)
        with open(os.path.join(out, f'plugin-{os.getpid()}.json'), 'w') as f:
            json.dump({'stats': dict(STATS), 'findings': FINDINGS, 'exitstatus': int(exitstatus)}, f)
