"""Random operation histories on a raw TokenStore with a mirrored list (workload for C07/C08)."""
from . import common, storemodel
from autobean_refactor import token_store as ts

TEXTS = ['a', 'bb', '', '\n', 'x\ny', 'c\n', '\n\n', 'ddd', '\r\n', ' ', 'é\n€']
UPD = ['z', '\n', 'q\nq', '', 'long long', 'a\n\nb', '\r\n', 'tail\n']
LFS_QUICK = [2, 3, 4, 5, 6, 8, 10, 12]
LFS_THOROUGH = [2, 3, 4, 5, 6, 7, 8, 9, 10, 11, 12, 16, 50]


def mk(r):
    return ts.Token(r.choice(TEXTS))


def initial_size(r, lf):
    return r.choice([0, 1, max(lf - 1, 0), lf, lf + 1, lf + lf // 2, 2 * lf, 3 * lf, 7 * lf + 1])


def batch(r, lf):
    return r.choice([0, 1, 1, 2, lf, 3 * lf])


class History:
    def __init__(self, r, lf, nsteps):
        self.r, self.lf, self.nsteps = r, lf, nsteps
        storemodel.set_load_factor(lf)
        self.shadow = [mk(r) for _ in range(initial_size(r, lf))]
        self.init_sizes = len(self.shadow)
        self.store = ts.TokenStore.from_tokens(list(self.shadow))
        self.log = []
        self.last = None
        self.foreign = None
        self.removed_pool = []
        self.edited_while_detached = 0

    def new_batch(self):
        """Tokens to insert: fresh ones, tokens removed earlier (detached since), and - for a third of them - tokens whose text was
        changed while they were in no store (a token's cached size has to follow its text there too)."""
        r = self.r
        out = []
        for _ in range(batch(r, self.lf)):
            pool = [t for t in self.removed_pool if t.store_handle is None and not any(t is x for x in out)]
            t = pool[r.randrange(len(pool))] if pool and r.random() < 0.3 else mk(r)
            if r.random() < 0.35:
                t.raw_text = r.choice(UPD)
                self.edited_while_detached += 1
            out.append(t)
        return out

    def _span_blocks(self, i, j):
        try:
            return self.shadow[j].store_handle.block.index - self.shadow[i].store_handle.block.index + 1
        except Exception:
            return -1

    def step(self):
        """Applies one operation to store and shadow. Returns a dict describing it, or None if nothing applied.
        Exceptions from the store propagate to the caller (they are verdict-relevant)."""
        r, lf, shadow, store = self.r, self.lf, self.shadow, self.store
        op = r.choice(['splice', 'splice', 'splice', 'ins_after', 'ins_before', 'remove', 'remove', 'update', 'update',
                       'replace', 'permute', 'rebuild', 'live'])
        n = len(shadow)
        info = {'op': op, 'n': n, 'changed': False, 'blocks': 1, 'removed': [], 'first_changed': None}
        if op == 'update':
            if not n:
                return None
            i = r.randrange(n)
            t = shadow[i]
            new = r.choice(UPD)
            info.update(i=i, old=t.raw_text, new=new, first_changed=i, changed=new != t.raw_text)
            self.log.append(('update', i, new))
            t.raw_text = new
        elif op in ('ins_after', 'ins_before'):
            new = self.new_batch()
            if n and r.random() < 0.9:
                i = r.randrange(n)
                t = shadow[i]
            else:
                i, t = None, None
            j = 0 if t is None else (i + 1 if op == 'ins_after' else i)
            info.update(i=i, k=len(new), first_changed=j, changed=bool(new))
            self.log.append((op, i, [x.raw_text for x in new]))
            (store.insert_after if op == 'ins_after' else store.insert_before)(t, new)
            shadow[j:j] = new
        elif op == 'remove':
            if not n:
                return None
            i = r.randrange(n)
            j = min(n - 1, i + r.choice([0, 0, 1, 2, lf, 2 * lf, 4 * lf]))
            removed = shadow[i:j + 1]
            end = shadow[j] if (j != i or r.random() < .5) else None
            info.update(i=i, j=j, blocks=self._span_blocks(i, j), removed=removed, first_changed=i, changed=True)
            self.log.append((op, i, j, end is not None))
            store.remove(shadow[i], end)
            del shadow[i:j + 1]
            self.removed_pool = (self.removed_pool + removed)[-40:]
        elif op == 'splice':
            new = self.new_batch()
            if not n or r.random() < 0.08:
                # pure insertion at a reference (or at the very start with ref=None)
                if n and r.random() < 0.7:
                    i = r.randrange(n)
                    ref = shadow[i]
                else:
                    i, ref = 0, None
                info.update(i=i, j=None, k=len(new), first_changed=i, changed=bool(new))
                self.log.append((op, i if ref is not None else None, None, [x.raw_text for x in new]))
                store.splice(new, ref)
                shadow[i:i] = new
            elif n >= 2 and r.random() < 0.12:
                # the empty range at i, given as (token i, the token before it): an insertion at i for a list (lst[i:i] = new),
                # whichever side of a block boundary the two tokens are on
                i = r.randrange(1, n)
                info.update(i=i, j=i - 1, k=len(new), first_changed=i, changed=bool(new), empty_range=True)
                self.log.append((op + '-empty-range', i, [x.raw_text for x in new]))
                if new or r.random() < 0.5:
                    store.splice(new, shadow[i], shadow[i - 1])
                    shadow[i:i] = new
                else:
                    store.remove(shadow[i], shadow[i - 1])
            else:
                i = r.randrange(n)
                j = min(n - 1, i + r.choice([0, 1, 2, lf, 2 * lf, 4 * lf]))
                removed = shadow[i:j + 1]
                info.update(i=i, j=j, k=len(new), blocks=self._span_blocks(i, j), removed=removed, first_changed=i,
                            changed=True)
                self.log.append((op, i, j, [x.raw_text for x in new]))
                store.splice(new, shadow[i], shadow[j])
                shadow[i:j + 1] = new
        elif op == 'replace':
            if not n:
                return None
            i = r.randrange(n)
            t = mk(r)
            info.update(i=i, removed=[shadow[i]], first_changed=i, changed=True)
            self.log.append((op, i, t.raw_text))
            store.replace(shadow[i], t)
            shadow[i] = t
        elif op == 'permute':
            # re-inserting tokens of the replaced range itself is legal (the comment-claim code does it)
            if n < 2:
                return None
            i = r.randrange(n - 1)
            j = min(n - 1, i + r.choice([1, 2, 3, lf, 2 * lf]))
            perm = shadow[i:j + 1]
            r.shuffle(perm)
            info.update(i=i, j=j, blocks=self._span_blocks(i, j), first_changed=i,
                        changed=any(a is not b for a, b in zip(perm, shadow[i:j + 1])))
            self.log.append((op, i, j, [shadow.index(x) for x in perm]))
            store.splice(perm, shadow[i], shadow[j])
            shadow[i:j + 1] = perm
        elif op == 'live' and n >= 3 and r.random() < 0.35:
            # other calls no list operation corresponds to: a range that ends before it starts, a reference token that lives in
            # another store. Both must be refused and change nothing; iterating a reversed range yields nothing.
            how = r.choice(['reversed-splice', 'reversed-remove', 'foreign-ref', 'foreign-query', 'reversed-iter'])
            i = r.randrange(2, n)
            j = r.randrange(0, i - 1)          # j <= i - 2: the range really ends before it starts (i-1 would be the empty range at i)
            info.update(i=i, j=j, live=how, changed=False)
            self.log.append((op, how, i, j))
            if self.foreign is None:
                self.foreign = [mk(r) for _ in range(2 * lf + 1)]
                self.foreign_store = ts.TokenStore.from_tokens(list(self.foreign))
            u = r.choice(self.foreign)
            try:
                if how == 'reversed-splice':
                    store.splice([mk(r)], shadow[i], shadow[j])
                elif how == 'reversed-remove':
                    store.remove(shadow[i], shadow[j])
                elif how == 'foreign-ref':
                    r.choice([store.insert_after, store.insert_before])(u, [mk(r)])
                elif how == 'foreign-query':
                    r.choice([store.get_next, store.get_prev, store.get_index, store.get_position])(u)
                else:
                    got = list(store.iter(shadow[i], shadow[j]))
                    if got:
                        info['live_accepted'] = True
                    else:
                        info['live_refused'] = True
                    return info
                info['live_accepted'] = True
            except ValueError:
                info['live_refused'] = True
        elif op == 'live':
            # a token that is in the store and outside the replaced range is offered again: the store has to refuse (a token has one
            # place) and stay as it is. The token just after the replaced range and the reference itself are the edge cases.
            if n < 2:
                return None
            i = r.randrange(n)
            j = min(n - 1, i + r.choice([0, 0, 1, lf]))
            outside = [x for x in (j + 1, j + 1, i - 1, r.randrange(n)) if 0 <= x < n and not i <= x <= j]
            how = r.choice(['splice', 'ins_before', 'ins_after'])
            if how != 'splice':
                outside = [i, i, (i + 1) % n, r.randrange(n)]
            if not outside:
                return None
            t = shadow[r.choice(outside)]
            extra = [mk(r)] if r.random() < 0.5 else []
            toks = extra + [t] if r.random() < 0.5 else [t] + extra
            if r.random() < 0.25:
                # ... or one new token twice in the batch: it cannot sit at two places either
                t = mk(r)
                extra = [t]
                toks = [t, mk(r), t] if r.random() < 0.5 else [t, t]
                how += '-twice'
            info.update(i=i, j=j, live=how, changed=False)
            self.log.append((op, how, i, j, shadow.index(t) if how.endswith('-twice') is False else None))
            try:
                if how.startswith('splice'):
                    store.splice(toks, shadow[i], shadow[j])
                elif how.startswith('ins_before'):
                    store.insert_before(shadow[i], toks)
                else:
                    store.insert_after(shadow[i], toks)
                info['live_accepted'] = True
            except ValueError:
                info['live_refused'] = True
                if any(x.store_handle is not None for x in extra):
                    info['live_accepted'] = True      # half-applied
        elif op == 'rebuild':
            if not n or r.random() < 0.7:
                return None
            info.update(first_changed=0, removed=list(shadow), rebuild=True, changed=True, blocks=self._span_blocks(0, n - 1))
            self.log.append((op,))
            store.remove(shadow[0], shadow[-1])
            bad = [k for k, t in enumerate(shadow) if t.store_handle is not None]
            if bad:
                info['still_attached'] = bad[:5]
                return info
            if len(store) != 0 or list(store):
                info['not_empty'] = True
                return info
            self.store = ts.TokenStore.from_tokens(list(shadow))
            info['removed'] = []
        self.last = info
        return info

    def pairs(self, k=3):
        n = len(self.shadow)
        if not n:
            return []
        out = []
        for _ in range(k):
            a = self.r.randrange(n)
            b = self.r.randrange(a, n)
            out.append((a, b))
        out.append((0, n - 1))
        return out
