"""Confinement oracle (C02/C03): identity-level diff of two store snapshots with an allowed window, plus the list gap rule."""
from . import common, walker
from autobean_refactor import models

TRIV = walker.TRIVIA


def tokens_of(nodes):
    s = set()
    for n in nodes:
        if n is None:
            continue
        try:
            for t in n.tokens:
                s.add(id(t))
        except Exception:
            pass
    return s


class Before:
    """Everything the oracle needs from the state *before* the call."""

    def __init__(self, root, op):
        self.snap = walker.snapshot(root.token_store)
        self.text = ''.join(x[1] for x in self.snap)
        self.parent_ids = [id(t) for t in op.parent.tokens]
        self.slot_nodes = list(op.slot())
        self.slot_tokens = {id(n): tokens_of([n]) for n in self.slot_nodes}
        self.parent_is_root = op.parent is root
        self.gaps = None


def judge(before: Before, root, op):
    """Returns a list of (kind, message). Empty = the edit was confined to the child and its adjacent separators."""
    errs = []
    after = walker.snapshot(root.token_store)
    b, a = before.snap, after
    bid = {x[0]: i for i, x in enumerate(b)}
    aid = {x[0]: i for i, x in enumerate(a)}
    after_nodes = list(op.slot())
    before_ids = {id(n) for n in before.slot_nodes}
    after_ids = {id(n) for n in after_nodes}
    removed_nodes = [n for n in before.slot_nodes if id(n) not in after_ids]
    added_nodes = [n for n in after_nodes if id(n) not in before_ids]
    removed_child = set()
    for n in removed_nodes:
        removed_child |= before.slot_tokens[id(n)]
    added_child = tokens_of(added_nodes)
    # nodes that survive but may be rewritten in place (value-level updates of an existing node)
    inplace_before, inplace_after = set(), set()
    for n in before.slot_nodes:
        if id(n) in after_ids and (id(n) in op.inplace_ids or op.kind.split(':')[0] in SINGLE_KINDS):
            inplace_before |= before.slot_tokens[id(n)]
            inplace_after |= tokens_of([n])
    removed_ok = removed_child | inplace_before
    added_ok = added_child | inplace_after

    surv_b = [x for x in b if x[0] in aid]
    surv_a = [x for x in a if x[0] in bid]
    if [x[0] for x in surv_b] != [x[0] for x in surv_a]:
        errs.append(('survivors-reordered', 'tokens that survive the edit changed their relative order'))
    else:
        for x, y in zip(surv_b, surv_a):
            if x[1] != y[1] and x[0] not in removed_ok and x[0] not in added_ok:
                errs.append(('survivor-text-changed', f'surviving token outside the child changed {x[1]!r} -> {y[1]!r}'))
                break
    pset = set(before.parent_ids)

    def flush_removed(run):
        if not run:
            return
        vis = [x for x in run if x[1]]
        if vis and not any(x[0] in removed_ok for x in run):
            errs.append(('separator-removed-away-from-child', 'removed run without a removed child: ' + repr(''.join(x[1] for x in run))))
        for x in run:
            if x[0] not in removed_ok and x[1] and not isinstance(x[2], TRIV):
                errs.append(('foreign-token-removed', f'token {x[2]!r} removed though it is not part of the removed child'))
            if x[0] not in pset and x[1] and not before.parent_is_root:
                errs.append(('removed-outside-parent', f'token {x[2]!r} outside the parent model was removed'))

    run = []
    for x in b:
        if x[0] not in aid:
            run.append(x)
        elif not x[1]:
            continue                      # a surviving zero-width token is transparent
        else:
            flush_removed(run)
            run = []
    flush_removed(run)

    def flush_added(run):
        if not run:
            return
        vis = [x for x in run if x[1]]
        if vis and not any(x[0] in added_ok for x in run):
            errs.append(('separator-added-away-from-child', 'added run without an added child: ' + repr(''.join(x[1] for x in run))))
        for x in run:
            if x[0] not in added_ok and x[1] and not isinstance(x[2], TRIV):
                errs.append(('foreign-token-added', f'token {x[2]!r} added though it is not part of the new child'))

    first_p = bid[before.parent_ids[0]] if before.parent_ids else None
    last_p = bid[before.parent_ids[-1]] if before.parent_ids else None
    prev_surv = None
    run = []
    for i, x in enumerate(a):
        if x[0] not in bid:
            run.append(x)
            if first_p is not None and x[1] and not before.parent_is_root:
                nxt = next((y for y in a[i + 1:] if y[0] in bid and y[1]), None)
                lo = bid[prev_surv[0]] if prev_surv else -1
                hi = bid[nxt[0]] if nxt else len(b)
                if hi < first_p or lo > last_p:
                    errs.append(('added-outside-parent', f'token {x[2]!r} added outside the parent model'))
        else:
            if x[1]:
                flush_added(run)
                run = []
                prev_surv = x
    flush_added(run)
    # text outside the parent (character level)
    if before.parent_ids and not before.parent_is_root and not errs:
        pre = ''.join(x[1] for x in b[:first_p])
        post = ''.join(x[1] for x in b[last_p + 1:])
        now = ''.join(x[1] for x in a)
        if not now.startswith(pre) or not now.endswith(post) or len(now) < len(pre) + len(post):
            errs.append(('text-outside-parent-changed', 'characters before or after the parent model changed'))
    return errs


SINGLE_KINDS = {'required_node', 'optional_node', 'unordered_node', 'custom_node', 'required_value', 'optional_value', 'py_property'}


# --- gap rule for repeated fields -------------------------------------------------------------------------------

def gaps(root, items):
    """Text between consecutive elements (by store order), and before the first one relative to nothing."""
    store = root.token_store
    out = []
    for x, y in zip(items, items[1:]):
        try:
            a = store.get_next(x.last_token)
            txt = []
            t = a
            guard = 0
            while t is not None and t is not y.first_token and guard < 10000:
                txt.append(t.raw_text)
                t = store.get_next(t)
                guard += 1
            out.append(''.join(txt) if t is y.first_token else None)
        except Exception:
            out.append(None)
    return out


_DEFAULT_GAPS = {}


def default_gap(field_owner_cls, attr):
    """Learned by observation from the field's own separators (what K.from_children([x, y]) prints between x and y)."""
    key = (field_owner_cls, attr)
    if key not in _DEFAULT_GAPS:
        gap = None
        for k in field_owner_cls.__mro__:
            for name, v in vars(k).items():
                if hasattr(v, 'separators') and hasattr(v, 'create_repeated'):
                    wrapper_attr = {'_directives': 'raw_directives_with_comments', '_meta': 'raw_meta_with_comments',
                                    '_postings': 'raw_postings_with_comments', '_tags_links': 'raw_tags_links',
                                    '_currencies': 'raw_currencies', '_values': 'raw_values', '_components': 'raw_components'}.get(name)
                    if wrapper_attr == attr:
                        gap = ''.join(t.raw_text for t in v.separators)
        _DEFAULT_GAPS[key] = gap
    return _DEFAULT_GAPS[key]
