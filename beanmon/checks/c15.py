"""C15 Constructed models are well-formed and parse back to the same content."""
import decimal

from .. import valuestate, common, builder, walker
from autobean_refactor import models
from autobean_refactor.models import base as mbase

D = decimal.Decimal
TREE = {c.__name__: c for c in models.TREE_MODELS.values()}


def _enum():
    """(class name, constructor, mask) for every subset of optional parameters when there are <= 8 of them."""
    out = []
    for fn, names in (('from_value', builder.CLASSES_FROM_VALUE), ('from_children', builder.CLASSES_FROM_CHILDREN)):
        for n in names:
            k = len(builder.optional_params(TREE[n], fn))
            if k <= 8:
                for mask in range(1 << k):
                    out.append((n, fn, mask))
    return out


ENUM = _enum()
CASES = {'quick': len(ENUM) + 5000, 'thorough': len(ENUM) * 4 + 60000}
SMALL_BLOCKS = 4      # runner: every 4th case keeps its stores in 2..10-token blocks
GATES = {
    'quick': {'cases_in_small_blocks': 50, 'evaluations': 7500, 'built': 4500, 'enumerated_subsets': len(ENUM), 'classes_from_value': 28, 'classes_from_children': 34,
              'in_file_checks': 1500, 'comment_values_compared': 800, 'value_readbacks': 10000, 'custom_values_needing_disambiguation': 8, 'custom_signed_after_number': 8},
    'thorough': {'evaluations': 90000, 'classes_from_value': 28, 'classes_from_children': 34},
}
RULE = ('case = one constructed model. The first ' + str(len(ENUM)) + ' cases enumerate, for every model class and both constructors, every '
        'subset of the optional arguments when there are <= 8 (one random in-domain value assignment each; thorough repeats the '
        'enumeration four times with other values); the remaining cases draw class, constructor and subset at random (Posting has 9 '
        'optional arguments). Arguments come from name-keyed generators (dates incl. years < 1000, strings needing escapes, negative '
        'numbers, consecutive custom numbers/amounts, payee without narration, empty and multi-element lists, multi-line comments). '
        'One evaluation = one constructed model checked: M3 with the model spanning its whole store; parse(print(m), type(m)) succeeds; '
        'the structural digest of the re-parsed model equals the constructed one (zero-width tokens and block comments dropped, comment '
        'lines compared as a sequence); for from_value every argument reads back through the attribute of the same name; directive '
        'models are also assembled into File.from_children (with standalone comments) and re-parsed as a file. Non-trivial = >=1 '
        'optional argument supplied; distinct = hash(class, constructor, argument values).')
RULE += (' Also (rounds 8-9): exponent-form and over-long decimals; comment tokens of the constructed and the re-parsed model compared value by value where the lexer sees the same tokens.')
ASSUMPTIONS = ['NumberAddExpr/NumberMulExpr are not parse targets: they are re-parsed inside a NumberExpr',
               'comment attribution after re-parse is not compared (adjacent comment lines merge into one token): C14']

DIRECTIVES = {'Balance', 'Close', 'Commodity', 'Custom', 'Document', 'Event', 'IgnoredLine', 'Include', 'Note', 'Open', 'Option', 'Pad',
              'Plugin', 'Popmeta', 'Poptag', 'Price', 'Pushmeta', 'Pushtag', 'Query', 'Transaction'}


def clines(store):
    return [ln.rstrip(' \t\r') for ln in walker.comment_lines(store)]


def simplify(v):
    if isinstance(v, (models.EscapedString, models.Date, models.NumberExpr, models.Bool)):
        return v.value
    if isinstance(v, mbase.RawModel):
        return ('raw', walker.digest(v, comments='keep'))
    return v


def readback(col, m, cname, args):
    """Value properties of the constructed model equal the from_value arguments. -> None | (mech, msg)"""
    n = 0
    for name, arg in args.items():
        if not hasattr(type(m), name) and name not in ('indent_by',):
            continue
        try:
            got = getattr(m, name)
        except Exception as e:
            return (f'readback-raised:{cname}.{name}', f'{type(e).__name__}: {e}')
        n += 1
        exp = arg
        if name in ('tags', 'links', 'currencies'):
            got, exp = list(got), list(arg)
        elif name == 'values':
            got, exp = [simplify(x) for x in got], [simplify(x) for x in arg]
            # disambiguation may wrap a signed number in parentheses: compare numbers by value
            got = [x if not (isinstance(x, tuple) and x[0] == 'raw') else x for x in got]
        elif name == 'meta':
            got = {k: simplify(v) for k, v in got.items()}
            exp = {k: simplify(v) for k, v in arg.items()}
        elif name in ('postings', 'directives'):
            if len(list(got)) != len(arg) or any(a is not b for a, b in zip(got, arg)):
                return (f'readback:{cname}.{name}', f'{name} does not hold the objects passed in')
            continue
        elif name in ('cost', 'price', 'amount'):
            if got is not arg:
                return (f'readback:{cname}.{name}', f'{name} is not the object passed in')
            continue
        elif name == 'flag' and cname == 'Transaction' and arg == 'txn':
            exp = '*'
        elif name == 'value' and cname in ('MetaItem', 'Pushmeta'):
            got, exp = simplify(got), simplify(arg)
        if cname == 'Transaction' and name == 'narration' and arg is None and args.get('payee') is not None:
            exp = ''
        if got != exp:
            return (f'readback:{cname}.{name}', f'constructed with {name}={arg!r:.80}, reads {got!r:.80}')
    col.count('value_readbacks', n)
    return None


def check_model(col, m, cname, fn, args_desc, args):
    text = common.pr(m)
    wit = {'class': cname, 'constructor': fn, 'arguments': args_desc, 'printed': text}
    col.ev()
    col.count('built')
    col.count(f'cls:{fn}:{cname}')
    errs = walker.check_tree(m, whole_store=True)
    if errs:
        col.violation(f'tree:{errs[0][0]}:{cname}.{fn}', errs[0][1], wit)
        return
    P = common.parser()
    if cname in ('NumberAddExpr', 'NumberMulExpr'):
        try:
            g = P.parse(text, models.NumberExpr)
        except Exception as e:
            col.violation(f'reparse-fails:{cname}.{fn}', f'{type(e).__name__}: {str(e)[:150]}', wit)
            return
        if cname == 'NumberAddExpr' and walker.digest(g.raw_number_add_expr) != walker.digest(m):
            col.violation(f'digest-differs:{cname}.{fn}', 're-parsed expression differs in structure', wit)
        return
    try:
        g = P.parse(text, type(m))
    except Exception as e:
        col.violation(f'reparse-fails:{cname}.{fn}', f'printed text is rejected: {type(e).__name__}: {str(e)[:200]}', wit)
        return
    if common.pr(g) != text:
        col.skip('re-parsed single model does not span its whole text (unowned comment; C01 known finding)')
    d1, d2 = walker.digest(m), walker.digest(g)
    if d1 != d2:
        from .c06 import _first_diff
        col.violation(f'digest-differs:{cname}.{fn}', 'the re-parsed model differs: ' + _first_diff(d1, d2), wit)
        return
    if clines(m.token_store) != clines(g.token_store):
        col.violation(f'comment-lines-differ:{cname}.{fn}', 'comment lines differ after re-parse', wit)
        return
    # the comments say the same, whoever owns them after the re-parse: token by token where the two stores hold the same comment
    # tokens (two adjacent comments of the constructed model become one token for the lexer - no pairing then)
    cm = [t for t in m.token_store if isinstance(t, models.BlockComment)]
    cg = [t for t in g.token_store if isinstance(t, models.BlockComment)]
    if [t.raw_text for t in cm] == [t.raw_text for t in cg]:
        for t1, t2 in zip(cm, cg):
            col.count('comment_values_compared')
            if (t1.value, t1.indent) != (t2.value, t2.indent):
                col.violation(f'comment-value-differs:{fn}', f'the comment {t1.raw_text!r} has value {t1.value!r} (indent {t1.indent!r}) in the constructed '
                              f'model and {t2.value!r} (indent {t2.indent!r}) after the re-parse', wit)
                return
    # ... and both read the same through every public attribute (views, value properties, custom getters)
    dv = valuestate.first_difference(valuestate.value_state(m, inline_comments=True), valuestate.value_state(g, inline_comments=True))
    col.count('value_state_comparisons')
    if dv:
        col.violation(f'value-state-differs:{dv[1]}.{dv[2]}:{fn}', f'{dv[0]}.{dv[2]} reads {str(dv[3])[:160]} on the constructed model, '
                      f'{str(dv[4])[:160]} on the re-parsed one', wit)
        return
    if fn == 'from_value':
        v = readback(col, m, cname, args)
        if v:
            col.violation(v[0], v[1], wit)
            return
    if cname == 'Custom':
        vals = list(m.raw_values)
        for a, b in zip(vals, vals[1:]):
            if isinstance(a, models.NumberExpr) and isinstance(b, (models.NumberExpr, models.Amount)) and common.pr(b).lstrip('(')[:1] in '+-':
                col.count('custom_signed_after_number')
        for a, b in zip(vals, vals[1:]):
            if isinstance(a, models.NumberExpr) and '(' in common.pr(b)[:1]:
                col.count('custom_values_needing_disambiguation')
    return True


def in_file(col, r, m, cname, fn, args_desc):
    items = []
    if r.random() < 0.4:
        items.append(models.BlockComment.from_value(builder.COMMENT(r)))
    items.append(m)
    if r.random() < 0.4:
        items.append(builder.DIRECTIVE(r))
    if r.random() < 0.3:
        items.append(models.BlockComment.from_value(builder.COMMENT(r)))
    f = models.File.from_children(items)
    text = common.pr(f)
    wit = {'class': cname, 'constructor': fn, 'arguments': args_desc, 'printed_file': text}
    col.ev()
    col.count('in_file_checks')
    errs = walker.check_tree(f, whole_store=True)
    if errs:
        col.violation(f'file-tree:{errs[0][0]}:{cname}', errs[0][1], wit)
        return
    try:
        g = common.parser().parse(text, models.File)
    except Exception as e:
        col.violation(f'file-reparse-fails:{cname}.{fn}', f'{type(e).__name__}: {str(e)[:200]}', wit)
        return
    if walker.digest(f) != walker.digest(g):
        from .c06 import _first_diff
        col.violation(f'file-digest-differs:{cname}.{fn}', 'the re-parsed file differs: ' + _first_diff(walker.digest(f), walker.digest(g)), wit)
        return
    if clines(f.token_store) != clines(g.token_store):
        col.violation(f'file-comment-lines-differ:{cname}.{fn}', 'comment lines differ after re-parse of the file', wit)


def describe(args):
    out = {}
    for k, v in args.items():
        if isinstance(v, mbase.RawModel):
            out[k] = f'<{type(v).__name__} {common.pr(v)!r:.60}>'
        elif isinstance(v, (list, tuple)):
            out[k] = [f'<{type(x).__name__} {common.pr(x)!r:.40}>' if isinstance(x, mbase.RawModel) else repr(x) for x in v]
        elif isinstance(v, dict):
            out[k] = {kk: (f'<{type(x).__name__} {common.pr(x)!r:.40}>' if isinstance(x, mbase.RawModel) else repr(x)) for kk, x in v.items()}
        else:
            out[k] = repr(v)
    return out


def run_case(col, r, idx):
    if idx < len(ENUM) or (col.tier == 'thorough' and idx < len(ENUM) * 4):
        cname, fn, mask = ENUM[idx % len(ENUM)]
        col.count('enumerated_subsets')
    else:
        fn = r.choice(['from_value', 'from_children'])
        cname = r.choice(builder.CLASSES_FROM_VALUE if fn == 'from_value' else builder.CLASSES_FROM_CHILDREN)
        mask = None
    cls = TREE[cname]
    try:
        m, args = (builder.build_from_value if fn == 'from_value' else builder.build_from_children)(cls, r, mask)
    except LookupError as e:
        col.skip(f'uncovered constructor parameter: {e}')
        return
    except Exception as e:
        col.ev()
        col.violation(f'constructor-raised:{cname}.{fn}', f'{type(e).__name__}: {e}', {'class': cname, 'constructor': fn, 'mask': mask})
        return
    desc = describe(args)
    if mask or (mask is None and any(k in builder.optional_params(cls, fn) for k in args)):
        col.nontrivial(cname, fn, repr(desc))
    ok = check_model(col, m, cname, fn, desc, args)
    if ok and cname in DIRECTIVES:
        in_file(col, r, m, cname, fn, desc)
    if idx % 499 == 0:
        col.sample({'class': cname, 'constructor': fn, 'arguments': desc, 'printed': common.pr(m) if ok else None})


def teardown(col):
    for p in sorted(builder.uncovered_params):
        col.count('uncovered_parameter:' + p)


def derive(counters):
    counters['classes_from_value'] = sum(1 for k in counters if k.startswith('cls:from_value:'))
    counters['classes_from_children'] = sum(1 for k in counters if k.startswith('cls:from_children:'))
