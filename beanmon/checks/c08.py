"""C08 Reported line/column positions always match the printed text (monitor M2)."""
import copy
import os
import shutil
import tempfile

from .. import common, storemodel, storehist, gen, values, walker
from autobean_refactor import models, editor as editor_lib
from autobean_refactor.models import base as mbase

CASES = {'quick': 3600, 'thorough': 120000}
GATES = {
    'quick': {'evaluations': 40000, 'doc_steps': 3000, 'store_steps': 30000, 'steps_changing_line_count': 3000,
              'doc_value_assign': 500, 'doc_raw_text_assign': 300, 'editor_cases': 50},
    'thorough': {'evaluations': 1500000, 'doc_steps': 100000, 'editor_cases': 2000},
}
RULE = ('three workloads. (a) raw-store histories as in C07 (load factor 2..12) whose raw_text updates add/remove line breaks; '
        '(b) parsed documents squeezed into 2..10-token blocks, histories of 12 (thorough 40) steps mixing value / raw_text / indent '
        'assignments on every token type with spacing edits, deletions and deep-copy insertions of directives; (c) Editor: include '
        'directives with unmatched globs at generated lines, the line in the ValueError compared with the directive\'s real line. '
        'One evaluation = one M2 comparison of get_position and get_index of every token against (line, column) recomputed from the '
        'current raw texts; non-trivial = a token after the edit point changed line or column; distinct = hash(load factor, text or '
        'initial size, op-log prefix).')
ASSUMPTIONS = ['token order for workload (b) is taken from iterating the store (C07 decides that order separately)',
               'editor line number accepted as 0- or 1-based but constant over the run']


def run_case(col, r, idx):
    k = idx % 12
    if k < 6:
        store_case(col, r, idx)
    elif k < 11:
        doc_case(col, r, idx)
    else:
        editor_case(col, r, idx)


def store_case(col, r, idx):
    lfs = storehist.LFS_QUICK if col.tier == 'quick' else storehist.LFS_THOROUGH
    lf = r.choice(lfs)
    nsteps = r.choice([40, 80]) if col.tier == 'quick' else r.choice([40, 100, 200])
    h = storehist.History(r, lf, nsteps)
    prev = storemodel.expected_positions(h.shadow)
    for s in range(nsteps):
        try:
            info = h.step()
        except Exception as e:
            col.skip('store method raised (C07 decides): ' + type(e).__name__)
            return
        if info is None or info.get('still_attached') or info.get('not_empty'):
            continue
        if info.get('live_accepted'):
            col.skip('store accepted a token it already holds (C07 decides)')
            return
        col.count('store_steps')
        before_ids = None
        v = storemodel.compare_positions(h.store, h.shadow)
        col.ev()
        cur = storemodel.expected_positions(h.shadow)
        if cur and prev and cur[-1][0] != prev[-1][0]:
            col.count('steps_changing_line_count')
        if cur != prev:
            col.nontrivial('store', lf, h.init_sizes, tuple(map(repr, h.log)))
        prev = cur
        if v:
            op = info['op']
            multi = '(multi-block)' if info['blocks'] >= 2 else ''
            detail = ''
            if op == 'update':
                detail = ':newline-added' if '\n' in info['new'] and '\n' not in info['old'] else \
                    ':newline-removed' if '\n' in info['old'] and '\n' not in info['new'] else ':same-newline-class'
            col.violation(f'store:{v[0]}:{op}{multi}{detail}', f'raw store lf={lf} after {op}: {v[1]}',
                          {'lf': lf, 'init': h.init_sizes, 'log': h.log[-6:], 'steps': len(h.log)})
            return


def _tokens_with_value(store):
    return [t for t in store if values.value_for.__call__ and hasattr(type(t), 'value')]


def doc_case(col, r, idx):
    lf = r.choice([2, 3, 4, 5, 7, 10])
    storemodel.set_load_factor(lf)
    try:
        text, f = gen.accepted_document(r, common.parser(), gen.DEFAULT, n=r.randint(2, 8))
        if f is None:
            col.skip('document rejected by parse')
            return
        store = f.token_store
        v = storemodel.compare_positions(store, list(store))
        col.ev()
        if v:
            col.violation(f'doc:{v[0]}:fresh-parse', f'freshly parsed document lf={lf}: {v[1]}', {'lf': lf, 'text': text})
            return
        nsteps = 12 if col.tier == 'quick' else r.choice([12, 40])
        log = []
        prev = storemodel.expected_positions(list(store))
        for s in range(nsteps):
            toks = list(store)
            if not toks:
                break
            kind = r.choice(['value', 'value', 'raw_text', 'raw_text', 'indent', 'spacing', 'del', 'insert', 'ws_raw'])
            desc = None
            try:
                if kind == 'value':
                    cands = [t for t in toks if hasattr(type(t), 'value')]
                    if not cands:
                        continue
                    t = r.choice(cands)
                    val = values.value_for(r, t)
                    if val is None:
                        continue
                    desc = ('value', type(t).__name__, toks.index(t), repr(val))
                    t.value = val
                    col.count('doc_value_assign')
                elif kind == 'raw_text':
                    cands = [t for t in toks if hasattr(type(t), 'value')]
                    if not cands:
                        continue
                    t = r.choice(cands)
                    val = values.value_for(r, t)
                    if val is None:
                        continue
                    if isinstance(t, models.BlockComment):
                        new = models.BlockComment.from_value(val, indent=t.indent).raw_text
                    else:
                        new = type(t).from_value(val).raw_text
                    desc = ('raw_text', type(t).__name__, toks.index(t), new)
                    t.raw_text = new
                    col.count('doc_raw_text_assign')
                elif kind == 'ws_raw':
                    cands = [t for t in toks if isinstance(t, walker.SPACING)]
                    if not cands:
                        continue
                    t = r.choice(cands)
                    new = r.choice([' ', '\n', '\n\n', '  \t', '\r\n']) if isinstance(t, models.Newline) else r.choice([' ', '   ', '\t'])
                    desc = ('raw_text', type(t).__name__, toks.index(t), new)
                    t.raw_text = new
                    col.count('doc_raw_text_assign')
                elif kind == 'indent':
                    cands = [t for t in toks if isinstance(t, models.BlockComment)]
                    if not cands:
                        continue
                    t = r.choice(cands)
                    new = r.choice(['', '  ', '\t', '      '])
                    desc = ('indent', 'BlockComment', toks.index(t), new)
                    t.indent = new
                    col.count('doc_indent_assign')
                elif kind == 'spacing':
                    ms = [m for p, m in walker.walk(f) if m is not f and hasattr(m, 'spacing_before')]
                    if not ms:
                        continue
                    m = r.choice(ms)
                    side = r.choice(['spacing_before', 'spacing_after'])
                    new = r.choice(['', ' ', '\n', '\n\n', '  ', '\r\n'])
                    desc = (side, type(m).__name__, new)
                    setattr(m, side, new)
                    col.count('doc_spacing_assign')
                elif kind == 'del':
                    w = f.raw_directives_with_comments
                    if not len(w):
                        continue
                    i = r.randrange(len(w))
                    desc = ('del', i)
                    del w[i]
                    col.count('doc_delete')
                elif kind == 'insert':
                    w = f.raw_directives_with_comments
                    if not len(w):
                        continue
                    i = r.randrange(len(w))
                    j = r.randrange(len(w) + 1)
                    desc = ('insert-copy', i, j)
                    w.insert(j, copy.deepcopy(w[i]))
                    col.count('doc_insert')
            except Exception as e:
                col.skip(f'edit raised {type(e).__name__} ({kind}); other properties decide that')
                return
            log.append(desc)
            col.count('doc_steps')
            shadow = list(store)
            v = storemodel.compare_positions(store, shadow)
            col.ev()
            cur = storemodel.expected_positions(shadow)
            if cur and prev and cur[-1][0] != prev[-1][0]:
                col.count('steps_changing_line_count')
            if cur != prev:
                col.nontrivial('doc', lf, text, tuple(map(repr, log)))
            prev = cur
            if v:
                mech = f'doc:{v[0]}:{desc[0]}' + (f':{desc[1]}' if desc[0] in ('value', 'raw_text') else '')
                col.violation(mech, f'document lf={lf} after {desc}: {v[1]}', {'lf': lf, 'text': text, 'log': log})
                return
        if idx % 499 == 6:
            col.sample({'kind': 'document history', 'lf': lf, 'text': text, 'ops': [repr(x) for x in log]})
    finally:
        storemodel.set_load_factor(1000)


_BASE = [None]


def editor_case(col, r, idx):
    """The line the editor reports for an unmatched include must be the directive's line in the file."""
    root = tempfile.mkdtemp(prefix='beanmon-c08-')
    try:
        lines = []
        n = r.randint(1, 12)
        target = r.randrange(n)
        for i in range(n):
            if i == target:
                lines.append('include "no-such-dir/*.nomatch"')
            else:
                lines.append(r.choice(['', '; comment', '2000-01-01 open Assets:Foo', '2000-01-01 note Assets:Foo "multi\nline"',
                                       '2000-01-01 *\n  Assets:Foo  1 USD\n  Assets:Bar']))
        text = '\n'.join(lines) + '\n'
        path = os.path.join(root, 'main.bean')
        with open(path, 'w', newline='') as fh:
            fh.write(text)
        # the directive starts at its leading comment if it has one: locate its first token in an independent parse
        f2 = common.parser().parse(text, models.File)
        inc = next(d for d in f2.raw_directives if isinstance(d, models.Include))
        off = 0
        for t in f2.token_store:
            if t is inc.first_token:
                break
            off += len(t.raw_text)
        exp_line = text[:off].count('\n')
        ed = editor_lib.Editor(common.parser())
        msg = None
        try:
            with ed.edit_file_recursive(path):
                pass
        except ValueError as e:
            msg = str(e)
        col.count('editor_cases')
        col.ev()
        col.nontrivial('editor', text)
        if msg is None:
            col.skip('editor did not report the unmatched include (C16 decides)')
            return
        import re
        m = re.search(r':(\d+)\)?\s*$', msg)
        if not m:
            col.skip('editor message carries no line number')
            return
        got = int(m.group(1))
        base = got - exp_line
        if base not in (0, 1):
            col.violation('editor:line-number', f'editor reports line {got} for an include on 0-based line {exp_line}',
                          {'text': text, 'message': msg})
            return
        if _BASE[0] is None:
            _BASE[0] = base
        elif _BASE[0] != base:
            col.violation('editor:line-number', f'editor line base changed within the run ({_BASE[0]} vs {base})',
                          {'text': text, 'message': msg})
    finally:
        shutil.rmtree(root, ignore_errors=True)
