"""C16 The editor writes exactly the edited files, exactly, and nothing else (filesystem snapshot + audit-event log)."""
import collections
import glob
import os
import shutil
import sys
import tempfile

from .. import common
from autobean_refactor import editor as editor_lib, models

CASES = {'quick': 2400, 'thorough': 40000}
MAX_SHARDS = 16
GATES = {
    'quick': {'evaluations': 2000, 'mode:noedit': 150, 'mode:edit': 150, 'mode:raise': 150, 'mode:remove': 100, 'mode:add': 100,
              'mode:single-edit': 100, 'mode:rekey': 80, 'entries_rekeyed': 100, 'graphs_with_absolute_include': 100, 'graphs_with_glob_characters_in_directory_names': 200, 'added:empty-built': 10, 'added:empty-parsed': 10, 'added:parsed-crlf': 10, 'edit_kind:clear': 50, 'edit_kind:append': 50, 'mode:single-noedit': 50, 'mode:single-raise': 50, 'mode:unmatched-include': 50,
              'spelling:abs': 200, 'spelling:dot': 200, 'spelling:bare': 200, 'spelling:updown': 200, 'spelling:dslash': 150, 'files_crlf_edited': 150,
              'graphs_with_cycle_or_diamond': 200, 'graphs_with_glob': 200, 'audit_events': 5000, 'linked_file_sessions': 250},
    'thorough': {'evaluations': 35000, 'files_crlf_edited': 4000},
}
RULE = ('case = one temporary tree (outside /repo and /verif, removed afterwards) of 1..7 (thorough ..12) files in nested directories whose '
        'include directives form a random graph (plain, absolute, *.bean, **/*.bean, ../ patterns; directory names with [ and *; cycles, diamonds, self-includes), each file with LF, '
        'CRLF or mixed line ends; the entry path spelled absolute, //absolute, ./x, sub/../x or bare (cwd in the directory); the with-block edits a '
        'random subset (an account renamed, a comment appended, or all directives removed), removes entries, moves entries to another spelling of their own path, adds 1..3 entries (existing or '
        'new directory; built or parsed models, also ones that print as the empty string, CRLF text), raises, or does nothing; both edit_file and '
        'edit_file_recursive. One evaluation = one with-block judged from the snapshot {path: bytes, mtime_ns} before/after and the '
        'sys.addaudithook log of the block (open/remove/mkdir/rename/truncate inside the tree): an untouched file keeps bytes and mtime and is '
        'never opened for writing; an edited file holds the bytes of print(edit(parse(original decoded without newline translation))); '
        'removed entries are gone, added ones present, nothing else appears or disappears; a recursive load opens each file of the '
        'independently computed include closure exactly once and visits exactly that set; when the block raises or an include matches '
        'nothing, no write/remove/mkdir event occurs and the snapshot is identical. Non-trivial = >=2 files or a filesystem change '
        'expected; distinct = hash(tree bytes, spelling, mode).')
RULE += (' Also (round 8): sessions over a file that is a symbolic link (relative / absolute) or has a hard-linked second name - the link stays a link, both names show the new content, no directory entry appears or vanishes.')
ASSUMPTIONS = ['the expectation for edited files uses the real parser/printer (decided by C01-C03)',
               'the include closure is recomputed with glob.glob(recursive=True) + normpath de-duplication']

EV = []
STATE = {'root': None, 'armed': False}
WATCHED = ('open', 'os.remove', 'os.mkdir', 'os.rename', 'os.truncate', 'os.rmdir', 'os.replace', 'os.unlink')


def _hook(name, args):
    if not STATE['armed'] or name not in WATCHED:
        return
    try:
        pth = os.path.abspath(os.fspath(args[0]))
    except TypeError:
        return
    if pth.startswith('//'):
        pth = pth[1:]           # POSIX keeps a leading double slash; it names the same file
    root = STATE['root']
    if root and (pth == root or pth.startswith(root + os.sep)):
        EV.append((name, os.path.relpath(pth, root), args[1] if name == 'open' else None))


def setup(col):
    sys.addaudithook(_hook)
    STATE['cwd'] = os.getcwd()


def snapshot(root):
    files, dirs = {}, set()
    for dp, dn, fn in os.walk(root):
        dirs.add(os.path.relpath(dp, root))
        for f in fn:
            p = os.path.join(dp, f)
            st = os.stat(p)
            with open(p, 'rb') as fh:
                files[os.path.relpath(p, root)] = (fh.read(), st.st_mtime_ns)
    return files, dirs


def closure(root, entry_rel):
    P = common.parser()
    seen, q = [], [os.path.normpath(entry_rel)]
    while q:
        cur = q.pop(0)
        if cur in seen:
            continue
        seen.append(cur)
        with open(os.path.join(root, cur), newline='') as fh:
            text = fh.read()
        f = P.parse(text, models.File)
        for d in f.raw_directives:
            if isinstance(d, models.Include):
                ms = glob.glob(os.path.join(glob.escape(os.path.join(root, os.path.dirname(cur))), d.filename), recursive=True)
                if not ms:
                    raise LookupError(d.filename)
                for m in ms:
                    q.append(os.path.normpath(os.path.relpath(m, root)))
    return seen


def the_edit(f, tag):
    """The edit applied both through the editor and to the independently parsed expectation."""
    if tag == '5':
        f.raw_directives_with_comments.clear()          # the model now prints (next to) nothing
    elif tag == '6':
        f.raw_directives_with_comments.append(models.BlockComment.from_value('appended'))
    else:
        f.directives[-1].account = 'Assets:Edited' + tag


def expected_bytes(original: bytes, tag):
    text = original.decode('utf-8')
    f = common.parser().parse(text, models.File)
    the_edit(f, tag)
    return common.pr(f).encode('utf-8')


def build_tree(r, root, tier):
    dirs = ['', 'a', 'a/b', 'c', 'd[1]', 'a/e*']        # (glob characters in a directory name are ordinary characters there)
    names = ['index.bean']
    for i in range(1, r.randint(1, 7 if tier == 'quick' else 12)):
        d = r.choice(dirs)
        os.makedirs(os.path.join(root, d), exist_ok=True)
        names.append(os.path.join(d, f'f{i}.bean'))
    nlc = {n: r.choice(['\n', '\r\n', 'mixed']) for n in names}
    feats = set()
    for n in names:
        body = []
        for _ in range(r.randint(0, 3)):
            k = r.random()
            if k < 0.04:
                body.append(r.choice(['include "missing-dir/*.bean"', 'include "nope.bean"']))
                feats.add('unmatched')
            elif k < 0.5:
                tgt = r.choice(names)
                rel = os.path.relpath(tgt, os.path.dirname(n) or '.')
                if r.random() < 0.15:
                    rel = os.path.join(root, tgt)          # the include names the file absolutely, whatever the entry path looks like
                    feats.add('absinclude')
                if any(c in tgt for c in '[*'):
                    rel = glob.escape(rel)                  # the include itself is a pattern: its own special characters are escaped
                body.append(f'include "{rel}"')
                if '..' in rel:
                    feats.add('updir')
                if tgt == n:
                    feats.add('self')
            elif k < 0.62:
                body.append('include "*.bean"')
                feats.add('glob')
            elif k < 0.72:
                body.append('include "**/*.bean"')
                feats.add('glob')
            else:
                body.append(f'2000-01-0{r.randint(1, 9)} open Assets:F{r.randint(0, 9)}  ; c')
        if r.random() < 0.3:
            body.append('; comment line ü')
        body.append('2000-01-01 close Assets:Z')
        if nlc[n] == 'mixed':
            text = ''.join(line + r.choice(['\n', '\r\n']) for line in body)
        else:
            text = nlc[n].join(body) + nlc[n]
        if r.random() < 0.15:
            text = text.rstrip('\r\n')
        with open(os.path.join(root, n), 'w', newline='', encoding='utf-8') as fh:
            fh.write(text)
    return names, nlc, feats



def _pinned_symlink(col):
    """One file under two names (a symbolic link next to it), both included: visited once, one model, edited once."""
    root = os.path.realpath(tempfile.mkdtemp(prefix='beanmon-c16-'))
    try:
        with open(os.path.join(root, 'main.bean'), 'w') as fh:
            fh.write('include "a.bean"\ninclude "l.bean"\n')
        with open(os.path.join(root, 'a.bean'), 'w') as fh:
            fh.write('2000-01-01 close Assets:Z\n')
        os.symlink('a.bean', os.path.join(root, 'l.bean'))
        ed = editor_lib.Editor(common.parser())
        col.ev()
        with ed.edit_file_recursive(os.path.join(root, 'main.bean')) as files:
            n = len(files)
            for f in files.values():
                if f.directives and isinstance(f.directives[-1], models.Close):
                    f.raw_directives_with_comments.append(models.BlockComment.from_value('edited'))
        with open(os.path.join(root, 'a.bean')) as fh:
            got = fh.read()
        if n != 2 or got.count('; edited') != 1:
            col.violation('symlinked-file-visited-twice', f'main.bean includes a.bean and l.bean -> a.bean: {n} entries in the mapping (2 files exist), '
                          f'a.bean now reads {got!r}', {'files': {'main.bean': 'include "a.bean"\ninclude "l.bean"\n', 'a.bean': '2000-01-01 close Assets:Z\n', 'l.bean': '-> a.bean'}})
    finally:
        shutil.rmtree(root, ignore_errors=True)


def _link_case(col, r, idx):
    """A file of the session that is a symbolic link, or has a second (hard-linked) name: the edit goes into the file; the link stays
    a link, the other name shows the new content, and no directory gains or loses an entry. False = a violation was reported."""
    root = os.path.realpath(tempfile.mkdtemp(prefix='beanmon-c16-'))
    try:
        nl = r.choice(['\n', '\r\n'])
        os.makedirs(os.path.join(root, 'book'))
        os.makedirs(os.path.join(root, 'shared'))
        real = os.path.join(root, 'shared', 'accounts.bean')
        original = (f'2000-01-01 open Assets:F1  ; c{nl}2000-01-01 close Assets:Z{nl}').encode()
        with open(real, 'wb') as fh:
            fh.write(original)
        kind = r.choice(['symlink-relative', 'symlink-absolute', 'hardlink'])
        link = os.path.join(root, 'book', 'accounts.bean')
        if kind == 'hardlink':
            os.link(real, link)
        else:
            os.symlink('../shared/accounts.bean' if kind == 'symlink-relative' else real, link)
        main = os.path.join(root, 'book', 'main.bean')
        with open(main, 'wb') as fh:
            fh.write(f'include "accounts.bean"{nl}'.encode())
        route = r.choice(['recursive-through-include', 'edit_file-on-the-link', 'recursive-entry-is-the-link'])
        tag = str(idx % 5)          # (tags 5 and 6 are the clear / append edits)
        listing = lambda: sorted((os.path.relpath(os.path.join(dp, n), root), os.path.islink(os.path.join(dp, n)))
                                 for dp, dn, fn in os.walk(root) for n in dn + fn)
        before = listing()
        target_before = os.readlink(link) if kind != 'hardlink' else None
        ed = editor_lib.Editor(common.parser())
        col.ev()
        col.count('linked_file_sessions')
        col.count(f'link:{kind}:{route}')
        wit = {'layout': f'book/main.bean includes accounts.bean; book/accounts.bean is a {kind} of shared/accounts.bean', 'route': route,
               'original': original.decode(), 'edit': f'last directive: account := Assets:Edited{tag}'}
        try:
            if route == 'edit_file-on-the-link':
                with ed.edit_file(link) as f:
                    the_edit(f, tag)
            else:
                with ed.edit_file_recursive(main if route == 'recursive-through-include' else link) as files:
                    for k, f in files.items():
                        if os.path.basename(k) == 'accounts.bean':
                            the_edit(f, tag)
        except Exception as e:
            col.violation(f'linked-file:raised:{kind}', f'{route}: {type(e).__name__}: {e}', wit)
            return False
        col.nontrivial('link', kind, route, tag, nl)
        exp = expected_bytes(original, tag)
        problems = []
        if kind != 'hardlink' and (not os.path.islink(link) or os.readlink(link) != target_before):
            problems.append(('link-replaced', 'book/accounts.bean is no longer the symbolic link it was'))
        for name in (real, link):
            with open(name, 'rb') as fh:
                if fh.read() != exp:
                    problems.append(('other-name-stale', f'{os.path.relpath(name, root)} does not hold the printed model'))
        if listing() != before:
            problems.append(('directory-entries-changed', f'entries before {before}, after {listing()}'))
        with open(main, 'rb') as fh:
            if fh.read() != f'include "accounts.bean"{nl}'.encode():
                problems.append(('unedited-file-changed', 'book/main.bean changed'))
        if problems:
            col.violation(f'linked-file:{problems[0][0]}:{kind}', f'{route}: ' + '; '.join(m for _, m in problems), wit)
            return False
        return True
    finally:
        shutil.rmtree(root, ignore_errors=True)


def run_case(col, r, idx):
    if idx % 6 == 0 and not _link_case(col, r, idx):
        return
    root = os.path.realpath(tempfile.mkdtemp(prefix='beanmon-c16-'))
    STATE['root'] = root
    try:
        names, nlc, feats = build_tree(r, root, col.tier)
        spelling = r.choice(['abs', 'dot', 'bare', 'updown', 'dslash'])
        os.makedirs(os.path.join(root, 'a'), exist_ok=True)
        os.chdir(root)
        entry = {'abs': os.path.join(root, 'index.bean'), 'dot': './index.bean', 'bare': 'index.bean', 'updown': 'a/../index.bean',
                 'dslash': '/' + os.path.join(root, 'index.bean')}[spelling]
        single = r.random() < 0.2
        unmatched = False
        try:
            expect_visit = closure(root, 'index.bean')
        except LookupError:
            unmatched = True
            expect_visit = None
        if single:
            mode = r.choice(['single-edit', 'single-edit', 'single-noedit', 'single-raise'])
        elif unmatched:
            mode = 'unmatched-include'
        else:
            mode = r.choice(['noedit', 'edit', 'edit', 'raise', 'remove', 'add', 'rekey'])
        ed = editor_lib.Editor(common.parser())
        before, dirs_before = snapshot(root)
        edited, removed, added, rekeyed = set(), set(), {}, set()
        tag = str(idx % 7)
        visited = None
        exc = None
        EV.clear()
        STATE['armed'] = True
        try:
            if single:
                with ed.edit_file(entry) as f:
                    if mode in ('single-edit', 'single-raise'):
                        the_edit(f, tag)
                        edited.add('index.bean')
                    if mode == 'single-raise':
                        raise KeyError('boom')
            else:
                with ed.edit_file_recursive(entry) as files:
                    keys = {os.path.normpath(os.path.relpath(os.path.abspath(k), root)): k for k in files}
                    visited = sorted(keys)
                    if mode == 'rekey':
                        # entries moved to another spelling of the same path (absolute, ./x, dir/../x): the file is neither new nor
                        # removed, it has to be there at the end with its model
                        for rel in r.sample(sorted(keys), r.randint(1, len(keys))):
                            old = keys[rel]
                            new = r.choice([os.path.abspath(old), os.path.join('.', os.path.relpath(os.path.abspath(old))),
                                            os.path.join(os.path.dirname(old) or '.', '..', os.path.basename(os.path.dirname(os.path.abspath(old))), os.path.basename(old))])
                            if new == old or new in files:
                                continue
                            files[new] = files.pop(old)
                            keys[rel] = new
                            rekeyed.add(rel)
                            col.count('entries_rekeyed')
                            if r.random() < 0.5:
                                the_edit(files[new], tag)
                                edited.add(rel)
                    if mode in ('edit', 'raise', 'remove', 'add'):
                        for rel in r.sample(sorted(keys), r.randint(1, len(keys))):
                            the_edit(files[keys[rel]], tag)
                            edited.add(rel)
                    if mode == 'remove' and len(keys) > 1:
                        rel = r.choice([k for k in keys if k != 'index.bean'])
                        files.pop(keys[rel])
                        removed.add(rel)
                        edited.discard(rel)
                    if mode == 'add':
                        k0 = keys['index.bean']
                        base = os.path.dirname(k0)
                        for newrel in r.sample(['new.bean', 'newdir/n.bean', 'a/added.bean', 'newdir/deep/er.bean'], r.choice([1, 1, 2, 3])):
                            form = r.choice(['comment', 'empty-built', 'empty-parsed', 'parsed-crlf', 'parsed'])
                            if form == 'comment':
                                nf, nb = models.File.from_children([models.BlockComment.from_value('created')]), b'; created'
                            elif form == 'empty-built':
                                nf, nb = models.File.from_children([]), b''
                            else:
                                nb = {'empty-parsed': b'', 'parsed-crlf': b'2000-01-01 open Assets:New\r\n; x\r\n',
                                      'parsed': b'\n2000-01-01 open Assets:New  ; c\n\n'}[form]
                                nf = common.parser().parse(nb.decode(), models.File)
                            files[os.path.join(base, newrel) if base else newrel] = nf
                            added[os.path.normpath(newrel)] = nb
                            col.count('added:' + form)
                    if mode == 'raise':
                        raise KeyError('boom')
        except KeyError as e:
            if str(e) != "'boom'":
                exc = e
        except Exception as e:
            exc = e
        finally:
            STATE['armed'] = False
        evs = list(EV)
        after, dirs_after = snapshot(root)
        col.ev()
        col.count('mode:' + mode)
        if edited:
            col.count('edit_kind:' + {'5': 'clear', '6': 'append'}.get(tag, 'account'))
        col.count('spelling:' + spelling)
        col.count('audit_events', len(evs))
        if feats & {'glob'}:
            col.count('graphs_with_glob')
        if 'absinclude' in feats:
            col.count('graphs_with_absolute_include')
        if any('[' in n or '*' in n for n in names):
            col.count('graphs_with_glob_characters_in_directory_names')
        if expect_visit and (len(expect_visit) < len(names) or 'self' in feats or len(expect_visit) >= 3):
            col.count('graphs_with_cycle_or_diamond')
        if len(names) >= 2 or edited or removed or added:
            col.nontrivial(tuple(sorted((k, v[0]) for k, v in before.items())), spelling, mode, tuple(sorted(edited)), tuple(sorted(removed)))
        wit = {'files': {k: v[0].decode('utf-8', 'replace') for k, v in before.items()}, 'spelling': spelling, 'entry': entry, 'mode': mode,
               'edited': sorted(edited), 'removed': sorted(removed), 'added': sorted(added), 'events': [list(map(str, e)) for e in evs][:60]}
        writes = {x[1] for x in evs if x[0] == 'open' and x[2] and any(c in x[2] for c in 'wax+')}
        mutating = [x for x in evs if x[0] != 'open' or (x[2] and any(c in x[2] for c in 'wax+'))]
        reads = collections.Counter(x[1] for x in evs if x[0] == 'open' and x[2] and 'r' in x[2] and '+' not in x[2])

        def bad(mech, msg):
            col.violation(f'{mech}:{mode}', msg, wit)

        if mode == 'unmatched-include':
            if not isinstance(exc, ValueError):
                return bad('unmatched-include-not-reported', f'an include that matches nothing was not reported with ValueError (got {exc!r})')
            if after != before or mutating or dirs_after != dirs_before:
                return bad('touched-although-load-failed', 'files were touched although the recursive load failed')
            return
        if exc is not None:
            return bad(f'exit-raised:{type(exc).__name__}:spelling-{spelling}', f'leaving the with-block raised {type(exc).__name__}: {exc}')
        if mode in ('raise', 'single-raise'):
            if after != before or dirs_after != dirs_before:
                return bad('touched-although-body-raised', 'the tree changed although the with-block raised')
            if mutating:
                return bad('write-event-although-body-raised', f'write/remove/mkdir events although the with-block raised: {mutating[:3]}')
            return
        if not single:
            if visited != sorted(expect_visit):
                return bad('visited-set', f'visited {visited}, the include closure is {sorted(expect_visit)}')
            for rel in expect_visit:
                if reads[rel] != 1:
                    return bad('read-count', f'{rel} was opened for reading {reads[rel]} times during one recursive edit')
        for rel, (b, mt) in before.items():
            if rel in removed:
                if rel in after:
                    return bad('removed-entry-still-on-disk', f'{rel} was removed from the mapping but is still on disk')
                continue
            if rel in edited:
                exp = expected_bytes(b, tag)
                if rel not in after:
                    return bad('edited-file-missing', f'{rel} disappeared')
                if after[rel][0] != exp:
                    kind = 'line-endings' if after[rel][0].replace(b'\r', b'') == exp.replace(b'\r', b'') else 'content'
                    wit['got'] = after[rel][0].decode('utf-8', 'replace')
                    wit['expected'] = exp.decode('utf-8', 'replace')
                    return bad(f'edited-file-bytes:{kind}', f'{rel} does not hold the printed model ({kind} differ)')
                if b'\r\n' in b:
                    col.count('files_crlf_edited')
            elif rel in rekeyed:
                # for the mapping this is an entry removed and an entry created: the file may be written again, with the same bytes
                if rel not in after:
                    return bad('rekeyed-file-missing', f'{rel} was moved to another spelling of its own path and is gone')
                if after[rel][0] != b:
                    return bad('rekeyed-file-bytes', f'{rel} was moved to another spelling of its own path, unedited, and its bytes changed')
            else:
                if rel not in after or after[rel] != (b, mt):
                    return bad('untouched-file-changed', f'{rel} was not edited but its bytes or mtime changed')
                if rel in writes:
                    return bad('untouched-file-opened-for-writing', f'{rel} was not edited but was opened for writing')
        for rel in set(after) - set(before):
            if rel not in added:
                return bad('unexpected-new-file', f'{rel} appeared')
        for rel, b in added.items():
            if rel not in after or after[rel][0] != b:
                return bad(f'added-file:spelling-{spelling}', f'added entry {rel} is missing or wrong on disk')
        extra_dirs = dirs_after - dirs_before - {os.path.dirname(a) for a in added} - {os.path.dirname(os.path.dirname(a)) for a in added}
        if extra_dirs - {''}:
            return bad('unexpected-directory', f'directories appeared: {sorted(extra_dirs)}')
        if idx % 211 == 0:
            col.sample({'files': wit['files'], 'spelling': spelling, 'mode': mode, 'edited': sorted(edited), 'events': wit['events'][:12]})
    finally:
        STATE['armed'] = False
        os.chdir(STATE.get('cwd') or '/')
        STATE['root'] = None
        shutil.rmtree(root, ignore_errors=True)


PINNED = [('one file under two names', _pinned_symlink)]
