"""C02 Changing one token changes only that token's characters."""
import decimal
from .. import common, gen, values, walker, storemodel
from autobean_refactor import models

CASES = {'quick': 3000, 'thorough': 60000}
SMALL_BLOCKS = 4      # runner: every 4th case keeps its stores in 2..10-token blocks
GATES = {
    'quick': {'cases_in_small_blocks': 50, 'evaluations': 8000, 'assign_value': 3000, 'assign_raw_text': 1500, 'assign_indent': 150, 'token_classes_assigned': 12,
              'multiline_new_text': 300, 'assign_raw_text_respelling': 330,
              'value_assignments_compared_with_a_fresh_token': 3000, 'assign_value_same_number_other_scale': 60},
    'thorough': {'evaluations': 250000, 'token_classes_assigned': 14},
}
RULE = ('case = one accepted generated document (stores squeezed into 2..10-token blocks in half of the cases), then 3..10 (thorough ..25) '
        'assignments of value / raw_text / indent to randomly chosen tokens (all token types with a value, plus whitespace/newline raw '
        'text), values from the in-domain generators. One evaluation = one assignment checked: the identity sequence of the store is '
        'unchanged, every other token keeps its text, and print == old[:a] + token.raw_text + old[b:]. Non-trivial = the new raw text '
        'differs from the old; distinct = hash(text, token ordinal, new raw text).')
RULE += (' Also (round 13): after a value assignment the token\'s new raw text must be the text a fresh token made from the same value has (an assignment that is silently dropped, or renders another object, leaves the old text - invisible to the span oracle, which reads the new text from the token); a third of the Number assignments write the same number at another scale (1234.5 -> 1234.50).')
ASSUMPTIONS = ['after raw_text / indent assignments the new raw text is read back from the token (whether it denotes the value is C12\'s business)']

_classes = set()


def run_case(col, r, idx):
    small = idx % 2 == 0
    lf = r.choice([2, 3, 5, 10]) if small else 1000
    storemodel.set_load_factor(lf)
    try:
        text, f = gen.accepted_document(r, common.parser(), gen.HOSTILE if idx % 5 == 4 else gen.DEFAULT,
                                        auto_claim_comments=(idx % 3 != 0))
        if f is None:
            col.skip('document rejected by parse')
            return
        store = f.token_store
        nsteps = r.randint(3, 10) if col.tier == 'quick' else r.randint(3, 25)
        log = []
        for _ in range(nsteps):
            toks = list(store)
            if not toks:
                return
            before = [(id(t), t.raw_text) for t in toks]
            kind = r.choice(['value', 'value', 'value', 'raw_text', 'raw_text', 'indent', 'ws'])
            if kind == 'ws':
                cands = [t for t in toks if isinstance(t, walker.SPACING)]
            elif kind == 'indent':
                cands = [t for t in toks if isinstance(t, models.BlockComment)]
            else:
                cands = [t for t in toks if hasattr(type(t), 'value')]
            if not cands:
                continue
            t = r.choice(cands)
            i = next(k for k, x in enumerate(toks) if x is t)
            cname = type(t).__name__
            try:
                if kind == 'value':
                    v = values.value_for(r, t)
                    if v is None:
                        continue
                    if isinstance(t, models.Number) and r.random() < 0.3:
                        # the same number at another scale (round 13): 1234.5 -> 1234.50 is a new value for a lossless editor
                        cur = format(t.value, 'f')
                        v = decimal.Decimal(cur + '0' if '.' in cur else cur + '.0')
                        col.count('assign_value_same_number_other_scale')
                    desc = ('value', cname, i, repr(v))
                    t.value = v
                    col.count('assign_value')
                    # "the token's new raw text" is the text of the value just assigned: what a fresh token made from the same value has
                    fresh = (models.BlockComment.from_value(v, indent=t.indent) if isinstance(t, models.BlockComment) else type(t).from_value(v)).raw_text
                    col.count('value_assignments_compared_with_a_fresh_token')
                    if t.raw_text != fresh:
                        col.ev()
                        col.violation(f'value-assignment-not-taken:{cname}', f'after value = {v!r} the token reads {t.raw_text!r}; a fresh '
                                      f'{cname} made from that value reads {fresh!r}', {'text': text, 'lf': lf, 'log': log + [desc]})
                        return
                elif kind == 'raw_text':
                    new = values.respell(r, t) if r.random() < 0.4 else None     # same value, other characters
                    if new is not None and new != t.raw_text:
                        col.count('assign_raw_text_respelling')
                    else:
                        v = values.value_for(r, t)
                        if v is None:
                            continue
                        new = (models.BlockComment.from_value(v, indent=t.indent) if isinstance(t, models.BlockComment)
                               else type(t).from_value(v)).raw_text
                    desc = ('raw_text', cname, i, new)
                    assigned = new
                    t.raw_text = new
                    col.count('assign_raw_text')
                elif kind == 'ws':
                    new = r.choice([' ', '  ', '\t', ' \t']) if isinstance(t, models.Whitespace) else r.choice(['\n', '\r\n', '\n\n'])
                    desc = ('raw_text', cname, i, new)
                    assigned = new
                    t.raw_text = new
                    col.count('assign_raw_text')
                else:
                    new = r.choice(['', '  ', '\t', '    ', ' \t '])
                    desc = ('indent', cname, i, new)
                    t.indent = new
                    col.count('assign_indent')
            except Exception as e:
                col.violation(f'assignment-raised:{kind}:{cname}', f'in-domain {kind} assignment raised {type(e).__name__}: {e}',
                              {'text': text, 'log': log, 'step': locals().get('desc')})
                return
            log.append(desc)
            col.ev()
            if desc[0] == 'raw_text' and t.raw_text != assigned:
                col.violation(f'raw-text-assignment-not-taken:{cname}', f'assigned raw_text {assigned!r}, the token reads {t.raw_text!r}',
                              {'text': text, 'lf': lf, 'log': log})
                return
            if cname not in _classes:
                _classes.add(cname)
                col.count('token_class:' + cname)
            after = [(id(x), x.raw_text) for x in store]
            wit = {'text': text, 'lf': lf, 'log': log}
            mech = None
            if [x[0] for x in after] != [x[0] for x in before]:
                mech, msg = 'identity-sequence-changed', 'the store\'s token identity sequence changed'
            elif any(b[1] != a[1] for k, (b, a) in enumerate(zip(before, after)) if k != i):
                k = next(k for k, (b, a) in enumerate(zip(before, after)) if k != i and b[1] != a[1])
                mech, msg = 'other-token-text-changed', f'token {k} changed {before[k][1]!r} -> {after[k][1]!r}'
            else:
                old = ''.join(x[1] for x in before)
                a = sum(len(x[1]) for x in before[:i])
                b = a + len(before[i][1])
                exp = old[:a] + t.raw_text + old[b:]
                got = common.pr(f)
                if got != exp:
                    mech, msg = 'printed-text', 'printed text is not the input with the token span replaced'
                    wit.update(got=got, expected=exp)
            if t.raw_text != before[i][1]:
                col.nontrivial(text, i, t.raw_text)
                if '\n' in t.raw_text:
                    col.count('multiline_new_text')
            if mech:
                col.violation(f'{mech}:{kind}:{cname}', f'after {desc}: {msg}', wit)
                return
        if idx % 401 == 0:
            col.sample({'text': text, 'lf': lf, 'assignments': [list(map(str, d)) for d in log]})
    finally:
        storemodel.set_load_factor(1000)


def derive(counters):
    counters['token_classes_assigned'] = sum(1 for k in counters if k.startswith('token_class:'))
