"""C10 All views of a repeated field stay consistent with each other."""
import collections
import copy
import datetime
import decimal

from .. import common, gen, ops, walker
from autobean_refactor import models
from autobean_refactor.models import base as mbase

CASES = {'quick': 3000, 'thorough': 60000}
SMALL_BLOCKS = 4      # runner: every 4th case keeps its stores in 2..10-token blocks
GATES = {
    'quick': {'kind:meta:popitem': 50, 'kind:rawmeta:setexisting': 10, 'kind:rawmeta:popitem': 10, 'cases_in_small_blocks': 50, 'evaluations': 12000, 'steps_changing_raw_list': 4500, 'ordered_view_pairs': 30, 'families_seen': 6,
              'read_probes': 100000, 'refusals_matched': 1200, 'meta_mapping_steps': 500, 'attribution_steps': 600, 'copied_view_edits': 100, 'window_permutations_of_mixed_kinds': 150, 'self_assignments_through_views': 150},
    'thorough': {'evaluations': 400000, 'ordered_view_pairs': 30, 'families_seen': 6},
}
RULE = ('case = one accepted generated document; every view of every repeated field is read first (so all incremental index tables '
        'exist); then 4..12 (thorough ..40) mutations, each through a randomly chosen view of a randomly chosen aliasing family (file '
        'directives x3; entry/posting meta x3 incl. the mapping; transaction postings x3, tags/links x3; note/document tags/links; open '
        'currencies x2; custom values x2; cost components) with the full index/slice/key grid incl. negative and out-of-range arguments. '
        'One evaluation = after a step, every view of that family compared with filter/convert(raw list now) by identity or value, the '
        'mutated view compared with a Python list/dict given the same call (including whether it refuses), elements foreign to the '
        'mutated view keep identity and order in the raw list, and read probes (len, every index incl. negative, slices, in, '
        'keys/values/items, get, first-match lookup) agree with the reference. Mapping calls on meta and raw_meta (set new/existing, del, pop, '
        'pop with default, setdefault, update, popitem) are compared with an ordered dict with first-match lookup given the same call: keys '
        'afterwards, the value stored under the key, the result of the call. Non-trivial = the step changed the raw list; distinct = '
        'hash(family, initial list, op-log prefix).')
RULE += (' Also (rounds 8-11): deep copies of views (edits through the copy show in it, the original is untouched), window permutations (deep copies of 2..4 neighbouring raw elements assigned back shuffled), elements assigned back to their own position through node views.')
ASSUMPTIONS = ['documented refusals (length-changing slice assignment through a filtered view, extended-slice size mismatch, missing key, '
               'out-of-range index) are expected exceptions; what they leave behind is C19\'s question']

_corpus = None

FAMILIES = {
    # raw list attribute -> {view attribute: (kind, element types)}
    'raw_directives_with_comments': {'raw_directives': 'filter', 'directives': 'filter'},
    'raw_meta_with_comments': {'raw_meta': 'rawmeta', 'meta': 'meta'},
    'raw_postings_with_comments': {'raw_postings': 'filter', 'postings': 'filter'},
    'raw_tags_links': {'tags': 'str', 'links': 'str'},
    'raw_currencies': {'currencies': 'str'},
    'raw_values': {'values': 'custom'},
    'raw_components': {},
}
VIEW_TYPES = {'raw_postings': models.Posting, 'postings': models.Posting, 'raw_meta': models.MetaItem, 'meta': models.MetaItem,
              'tags': models.Tag, 'links': models.Link, 'currencies': models.Currency}


def setup(col):
    global _corpus
    _corpus = ops.Corpus(col.seed, 70)


def simplify(raw):
    if isinstance(raw, (models.EscapedString, models.Date, models.Bool, models.NumberExpr)):
        return raw.value
    return raw


def expected_view(m, raw_attr, view_attr, kind):
    raw = list(getattr(m, raw_attr))
    if kind == 'filter':
        if 'directives' in view_attr:
            return [x for x in raw if not isinstance(x, models.BlockComment)], 'identity'
        return [x for x in raw if isinstance(x, VIEW_TYPES[view_attr])], 'identity'
    if kind in ('rawmeta', 'meta'):
        return [x for x in raw if isinstance(x, models.MetaItem)], 'identity'
    if kind == 'str':
        return [x.value for x in raw if isinstance(x, VIEW_TYPES[view_attr])], 'value'
    if kind == 'custom':
        return [simplify(x) for x in raw], 'value'
    raise AssertionError(kind)


def same(a, b, mode):
    if len(a) != len(b):
        return False
    if mode == 'identity':
        return all(x is y for x, y in zip(a, b))
    return all((x is y) or (type(x) is type(y) and x == y) for x, y in zip(a, b))


def probe_view(col, w, exp, mode, label):
    """Read probes on a list-like view against the reference list."""
    n = len(exp)
    col.count('read_probes', 2 * n + 6)
    try:
        if len(w) != n:
            return f'len({label}) == {len(w)}, reference {n}'
        for i in range(-n, n):
            if not same([w[i]], [exp[i]], mode):
                return f'{label}[{i}] differs from the reference'
        for sl in (slice(None), slice(1, None), slice(None, -1), slice(None, None, 2), slice(None, None, -1), slice(1, 3)):
            if not same(list(w[sl]), exp[sl], mode):
                return f'{label}[{sl.start}:{sl.stop}:{sl.step}] differs from the reference'
        for bad in (n, -n - 1):
            try:
                w[bad]
                return f'{label}[{bad}] did not raise IndexError (len {n})'
            except IndexError:
                pass
        # equality with a list: equal to its own elements, not to a shorter or longer list (also one padded with None)
        own = list(w)
        if not (w == own):
            return f'{label} != list({label})'
        if w == own + [None] or (n and w == own[:-1]):
            return f'{label} == a list of another length'
        if n:
            x = exp[n // 2]
            if x not in w:
                return f'`in` says an element of {label} is not in it'
    except Exception as e:
        return f'reading {label} raised {type(e).__name__}: {e}'
    return None


def probe_meta(col, w, items, label, raw_values):
    """Mapping probes: ordered-dict, first-match semantics."""
    ref = collections.OrderedDict()
    for it in items:
        ref.setdefault(it.key, it)
    col.count('read_probes', 4 * len(items) + 4)
    conv = (lambda it: it) if raw_values else (lambda it: simplify_meta(it))
    try:
        keys = list(w.keys())
        if keys != [it.key for it in items]:
            return f'{label}.keys() == {keys!r}, items have {[it.key for it in items]!r}'
        vals = list(w.values())
        if not same(vals, [conv(it) for it in items], 'identity' if raw_values else 'value'):
            return f'{label}.values() differs from the items'
        its = list(w.items())
        if [k for k, _ in its] != keys or not same([v for _, v in its], [conv(it) for it in items], 'identity' if raw_values else 'value'):
            return f'{label}.items() differs from the items'
        for k, it in ref.items():
            if k not in w:
                return f'{k!r} in {label} is False'
            if not same([w[k]], [conv(it)], 'identity' if raw_values else 'value'):
                return f'{label}[{k!r}] is not the first item with that key'
            if not same([w.get(k)], [conv(it)], 'identity' if raw_values else 'value'):
                return f'{label}.get({k!r}) is not the first item with that key'
        if 'zz-missing' in w or w.get('zz-missing', 7) != 7:
            return f'{label} claims to contain a missing key'
        try:
            w['zz-missing']
            return f'{label}[missing] did not raise KeyError'
        except KeyError:
            pass
        if len(w) != len(items):
            return f'len({label}) == {len(w)} with {len(items)} items'
        # the key / value / item views are collections in their own right: membership, set operations, repr
        kv, vv, iv = w.keys(), w.values(), w.items()
        repr(kv), repr(vv), repr(iv)
        for k, it in ref.items():
            if k not in kv or (k, w[k]) not in iv or w[k] not in vv:
                return f'membership in {label}.keys()/.items()/.values() fails for {k!r}'
        if 'zz-missing' in kv or ('zz-missing', 1) in iv:
            return f'{label}.keys()/.items() claim to contain a missing key'
        if (kv & set(ref)) != set(ref) or (kv - set(ref)):
            return f'set operations on {label}.keys() disagree with the keys'
        col.count('dict_view_probes')
    except Exception as e:
        return f'reading {label} raised {type(e).__name__}: {e}'
    return None


def simplify_meta(it):
    raw = it.raw_value
    if isinstance(raw, (models.EscapedString, models.Date, models.NumberExpr, models.Bool)):
        return raw.value
    return raw


def families(f):
    out = []
    for path, m in walker.tree_models(f):
        for raw_attr, views in FAMILIES.items():
            if raw_attr == 'raw_components':
                continue
            if ops.desc_of(type(m), raw_attr) is not None:
                vs = {v: k for v, k in views.items() if ops.desc_of(type(m), v) is not None}
                out.append((path, m, raw_attr, vs))
    return out


def check_family(col, m, raw_attr, views, label):
    for v, kind in views.items():
        exp, mode = expected_view(m, raw_attr, v, kind)
        w = getattr(m, v)
        try:
            got = list(w)
        except Exception as e:
            return (f'view-iteration-raised:{v}', f'iterating {label}.{v} raised {type(e).__name__}: {e}')
        if kind in ('rawmeta', 'meta'):
            # list(mapping) yields keys; the item sequence is read through the int index / values()
            try:
                got = [w[i] for i in range(len(w))]
            except Exception as e:
                return (f'view-iteration-raised:{v}', f'indexing {label}.{v} raised {type(e).__name__}: {e}')
        if not same(got, exp, mode):
            return (f'view-differs-from-raw:{v}', f'{label}.{v} reads {got!r:.150} but filter/convert(raw) is {exp!r:.150}')
        msg = probe_view(col, w, exp, mode, f'{label}.{v}') if kind not in ('rawmeta', 'meta') else \
            probe_meta(col, w, exp, f'{label}.{v}', raw_values=(kind == 'rawmeta'))
        if msg:
            return (f'read-probe:{v}', msg)
    # raw list itself is a list
    raw = getattr(m, raw_attr)
    msg = probe_view(col, raw, list(raw), 'identity', f'{label}.{raw_attr}')
    if msg:
        return (f'read-probe:{raw_attr}', msg)
    return None


def cost_family(col, f):
    """Cost components: the unordered-node views are the first component of each type."""
    for path, m in walker.tree_models(f):
        if isinstance(m, models.CostSpec):
            comps = list(m.raw_cost.raw_components)
            for attr, typ in (('raw_date_comp', models.Date), ('raw_label_comp', models.EscapedString), ('raw_asterisk_comp', models.Asterisk),
                              ('raw_amount_comp', models.Amount), ('raw_compound_amount_comp', models.CompoundAmount),
                              ('raw_number_comp', models.NumberExpr), ('raw_currency_comp', models.Currency)):
                exp = next((c for c in comps if isinstance(c, typ)), None)
                col.count('read_probes')
                if getattr(m, attr) is not exp:
                    return (f'view-differs-from-raw:{attr}', f'{path}.{attr} is not the first {typ.__name__} component')
            if list(m.raw_cost_components) != comps or any(a is not b for a, b in zip(m.raw_cost_components, comps)):
                return ('view-differs-from-raw:raw_cost_components', f'{path}.raw_cost_components differs from raw_cost.raw_components')
    return None


def run_case(col, r, idx):
    if idx % 4 == 0:
        text, f = gen.accepted_layout(r, common.parser())       # comment-rich: lists with several standalone comments
    else:
        text, f = gen.accepted_document(r, common.parser(), gen.LF_ONLY if idx % 2 else gen.DEFAULT, n=r.randint(1, 5))
    if f is None:
        col.skip('document rejected by parse')
        return
    fams = families(f)
    if not fams:
        col.skip('document has no repeated field')
        return
    # materialise every view first
    for path, m, raw_attr, views in fams:
        v = check_family(col, m, raw_attr, views, path)
        col.ev()
        if v:
            col.violation('fresh-parse:' + v[0], v[1], {'text': text})
            return
    g = ops.Generator(_corpus, r, index_mode='grid')
    nsteps = r.choice([4, 8, 12]) if col.tier == 'quick' else r.choice([6, 12, 40])
    log = []
    for s in range(nsteps):
        fams = families(f)
        path, m, raw_attr, views = r.choice(fams)
        attr = r.choice([raw_attr] + list(views))
        d = ops.desc_of(type(m), attr)
        k = ops.classify(d)
        op = None
        if raw_attr.endswith('_with_comments') and r.random() < (0.4 if sum(isinstance(x, models.BlockComment) for x in getattr(m, raw_attr)) >= 2 else 0.12):
            # comment attribution also changes the raw list (standalone comments enter or leave it): the views must follow
            w = getattr(m, raw_attr)
            own = [x for x in w if isinstance(x, models.BlockComment)]
            what = r.choice(['unclaim-all', 'unclaim-some', 'claim-all', 'unclaim-then-claim'])
            if what == 'unclaim-some' and own:
                sel = r.sample(own, r.randint(1, len(own)))
                fn = lambda: w.unclaim_interleaving_comments(sel)
            elif what == 'claim-all':
                fn = w.claim_interleaving_comments
            elif what == 'unclaim-then-claim':
                fn = lambda: (w.unclaim_interleaving_comments(), w.claim_interleaving_comments())
            else:
                fn = w.unclaim_interleaving_comments
            op = ops.Op('claim:' + what, f'{path}.{raw_attr}: {what} ({len(own)} standalone comments)', m, path, lambda: [], fn)
            attr = raw_attr
            col.count('attribution_steps')
        if op is None and r.random() < 0.08:
            # the same elements in another order, through one slice assignment on the raw list (deep copies of a window, shuffled):
            # as many elements of every kind go in as come out, only their places differ
            w = getattr(m, raw_attr)
            cur = list(w)
            if len(cur) >= 2:
                a = r.randrange(len(cur) - 1)
                b = r.randint(a + 2, min(len(cur), a + 4))
                window = cur[a:b]
                new = [copy.deepcopy(x) for x in window]
                r.shuffle(new)
                if len({type(x) for x in window}) > 1:
                    col.count('window_permutations_of_mixed_kinds')
                op = ops.Op('raw_list:permute-window', f'{path}.{raw_attr}[{a}:{b}] = <deep copies of these {b - a} elements, shuffled: '
                            f'{[type(x).__name__ for x in new]}>', m, path, lambda: [], lambda: w.__setitem__(slice(a, b), new))
                attr = raw_attr
                col.count('window_permutations')
        if op is None and views and r.random() < 0.05:
            # an element assigned back to where it is, through a view that shows nodes: a list shrugs (l[i] = l[i], l[:] = list(l))
            nv = [v for v, kd in views.items() if kd in ('filter', 'rawmeta')]
            if nv:
                v = r.choice(nv)
                w = getattr(m, v)
                cur = [w[i] for i in range(len(w))]
                if cur:
                    i = r.randrange(len(cur))
                    how = r.choice(['item', 'item-negative', 'whole-slice'])
                    fn = {'item': lambda: w.__setitem__(i, cur[i]), 'item-negative': lambda: w.__setitem__(i - len(cur), cur[i]),
                          'whole-slice': lambda: w.__setitem__(slice(None), list(cur))}[how]
                    op = ops.Op('filtered:self-assign', f'{path}.{v}: an element assigned back to its own position ({how})', m, path, lambda: [], fn)
                    attr = v
                    col.count('self_assignments_through_views')
        try:
            op = op or g.build(f, path, m, attr, d, k)
        except (decimal.DecimalException, ZeroDivisionError):
            continue
        if op is None:
            continue
        raw_before = list(getattr(m, raw_attr))
        wit = {'text': text, 'log': log + [op.desc]}
        try:
            op.apply()
            raised = None
        except Exception as e:
            raised = e
        col.ev()
        fam = raw_attr.replace('_with_comments', '')
        col.count('family:' + fam)
        col.count('kind:' + op.kind)
        if k == 'meta' or (k == 'raw_meta' and 'meta' in attr):
            col.count('meta_mapping_steps')
        if (raised is None) != (op.expect is None):
            if raised is None:
                col.violation(f'missing-refusal:{op.kind}', f'{op.desc}: a Python list/dict (or the documented rule) refuses this call with '
                              f'{op.expect.__name__}, the view accepted it', wit)
            else:
                col.violation(f'spurious-refusal:{op.kind}', f'{op.desc}: raised {type(raised).__name__}: {raised}; a Python list/dict accepts this call', wit)
            return
        if raised is not None:
            if not isinstance(raised, op.expect) and not (op.expect in (IndexError, KeyError, ValueError) and isinstance(raised, (IndexError, KeyError, ValueError))):
                col.violation(f'wrong-exception:{op.kind}', f'{op.desc}: raised {type(raised).__name__}, expected {op.expect.__name__}', wit)
                return
            col.count('refusals_matched')
            # a refused call ends the history: what it leaves behind is C19's question
            return
        log.append(op.desc)
        raw_after = list(getattr(m, raw_attr))
        if len(raw_after) != len(raw_before) or any(a is not b for a, b in zip(raw_after, raw_before)):
            col.count('steps_changing_raw_list')
            col.nontrivial(fam, text, tuple(log))
        for v2 in [raw_attr] + list(views):
            col.count(f'pair:{attr}->{v2}')
        if op.list_check:
            try:
                msg = op.list_check()
            except Exception as e:
                msg = f'reading the list after the call raised {type(e).__name__}: {e}'
            if msg:
                col.violation(f'list-semantics:{op.kind}', f'{op.desc}: {msg}', wit)
                return
        # elements foreign to the mutated view keep identity and order
        if attr in VIEW_TYPES or 'directives' in attr and attr != raw_attr:
            t = VIEW_TYPES.get(attr)
            foreign = (lambda x: isinstance(x, models.BlockComment)) if t is None else (lambda x: not isinstance(x, t))
            fb = [x for x in raw_before if foreign(x)]
            fa = [x for x in raw_after if foreign(x)]
            if len(fa) != len(fb) or any(a is not b for a, b in zip(fa, fb)):
                col.violation(f'foreign-elements-changed:{op.kind}', f'{op.desc}: elements of the raw list that do not belong to the '
                              f'mutated view changed identity or order', wit)
                return
        v = check_family(col, m, raw_attr, views, path)
        if v is None and 'cost' in text.lower() or True:
            v = v or cost_family(col, f)
        if v:
            col.violation(f'{v[0]}:after:{op.kind}', f'after {op.desc}: {v[1]}', wit)
            return
    # a deep copy of a view is a view of the copied list: edits through it show in it, and the original neither sees nor suffers them
    if idx % 3 == 0:
        fams = families(f)
        path, m, raw_attr, views = r.choice(fams)
        if views:
            v = r.choice(list(views))
            kind = views[v]
            w = getattr(m, v)
            read = (lambda x: [x[i] for i in range(len(x))]) if kind in ('rawmeta', 'meta') else list
            texts = lambda xs: [common.pr(x) if isinstance(x, mbase.RawModel) else x for x in xs]
            before_doc = common.pr(f)
            orig = texts(read(w))
            wit = {'text': text, 'log': log, 'view': f'{path}.{v}'}
            col.ev()
            col.count('copied_view_checks')
            try:
                c = copy.deepcopy(w)
                got = texts(read(c))
                if got != orig:
                    col.violation(f'copied-view-differs:{v}', f'deepcopy({path}.{v}) reads {got!r:.120}, the view reads {orig!r:.120}', wit)
                    return
                steps = []
                ref = list(orig)
                for _ in range(r.randint(1, 3)):
                    if ref and r.random() < 0.6:
                        i = r.randrange(len(ref))
                        del c[i]            # (the meta mappings take positions as well as keys)
                        del ref[i]
                        steps.append(f'del [{i}]')
                    elif ref and kind not in ('rawmeta', 'meta'):
                        x = c.pop()
                        c.insert(0, x)
                        ref.insert(0, ref.pop())
                        steps.append('insert(0, pop())')
                    else:
                        continue
                    col.count('copied_view_edits')
                    got = texts(read(c))
                    if got != ref:
                        col.violation(f'copied-view-stale:{v}', f'deepcopy({path}.{v}) after {steps}: reads {got!r:.120}, a list given the same calls '
                                      f'holds {ref!r:.120}', dict(wit, steps=steps))
                        return
                if texts(read(w)) != orig or common.pr(f) != before_doc:
                    col.violation(f'copied-view-not-independent:{v}', f'edits through deepcopy({path}.{v}) ({steps}) changed the original', dict(wit, steps=steps))
                    return
            except Exception as e:
                col.violation(f'copied-view-raised:{v}', f'deepcopy({path}.{v}) / edits through it raised {type(e).__name__}: {e}', wit)
                return
    if idx % 397 == 0:
        col.sample({'text': text, 'ops': log})


def derive(counters):
    counters['ordered_view_pairs'] = sum(1 for k in counters if k.startswith('pair:'))
    counters['families_seen'] = sum(1 for k in counters if k.startswith('family:'))
