"""C20 Equality means same type, same text and same structure."""
import copy

from .. import common, gen, ops, storemodel, walker
from autobean_refactor import models
from autobean_refactor.models import base as mbase
from autobean_refactor.models.internal.repeated import Repeated
from autobean_refactor.models.internal.surrounding_comments import SurroundingCommentsMixin

CASES = {'quick': 1500, 'thorough': 40000}
GATES = {
    'quick': {'arithmetic_edit_pairs': 40, 'edited_vs_reparse_pairs': 1500, 'edited_vs_reparse_other_structure': 150, 'slot_perturbations': 80, 'evaluations': 30000, 'equal_pairs': 15000, 'token_perturbations': 3000, 'child_perturbations': 2500,
              'attribution_perturbations': 500, 'type_perturbations': 300, 'class_fields_perturbed': 120, 'token_law_pairs': 10000,
              'whole_file_text_perturbations': 3000, 'token_law_after_edit': 3000, 'documents_in_small_blocks': 400, 'container_copy_pairs': 900, 'same_span_parent_child_pairs': 2000, 'same_text_same_tree_pairs': 300, 'models_with_custom_indent_by': 200,
              'submodel_copies': 4000},
    'thorough': {'evaluations': 800000, 'class_fields_perturbed': 160},
}
RULE = ('case = one accepted generated document (a third of them parsed into stores of 2..10-token blocks, the second parse and all '
        'copies into ordinary blocks). Equal pairs: two parses of the text, a model and its deepcopy, compared root and '
        'sub-model by sub-model in both directions, and 8 sub-models each against a deep copy taken of it alone. Unequal pairs, each built from a fresh twin: one token\'s text changed (sampled '
        'tokens of every class; every ancestor must become unequal, every disjoint sub-model stay equal), one catalog edit that adds, '
        'removes or replaces a child or list element (asserted unequal whenever printed text or the structural digest with attribution '
        'differs), the same text parsed as another type (CostSpec vs UnitCost/TotalCost, NumberExpr vs paren/unary expression, tokens '
        'of different rules with one text), one comment re-attributed (unclaimed; leading of X -> trailing of its neighbour; attribution '
        'on vs off). Laws: a==b iff b==a on every pair; tokens equal iff same rule and text, and equal tokens hash equally. One '
        'evaluation = one pair compared in both directions; non-trivial = a perturbation pair or a pair with a tree model; distinct = '
        'hash(text, perturbation).')
RULE += (' Also (rounds 8-9): every edited document compared with a fresh parse of its own printed text (equal iff the structures agree), raw_string2 := None on transactions with both strings, in-place arithmetic then edited == deepcopy(edited).')
ASSUMPTIONS = ['pairs that differ only in zero-width token order or in indent_by are not asserted either way',
               'reference notion of "same structure" = structural digest from the shadow walker with owned comments kept under their owner']

_corpus = None
SAME_TEXT_TYPES = [(models.CostSpec, models.UnitCost, ['{1 USD}', '{}', '{ 2000-01-01, "l" }']),
                   (models.CostSpec, models.TotalCost, ['{{1 USD}}', '{{}}']),
                   (models.NumberExpr, models.NumberParenExpr, ['(1)', '( 1 + 2 )']),
                   (models.NumberExpr, models.NumberUnaryExpr, ['-1', '+ 2'])]
SAME_TEXT_TOKENS = [('*', [models.PostingFlag, models.TransactionFlag, models.Asterisk, models.MulOp]),
                    ('#', [models.PostingFlag, models.Hash]), (' ', [models.Whitespace, models.Indent]),
                    ('-', [models.UnaryOp, models.AddOp]), ('USD', [models.Currency, models.Ignored])]


KF_ZERO_WIDTH = 'zero-width-token-layout-in-equality'


def setup(col):
    global _corpus
    _corpus = ops.Corpus(col.seed, 60)


def full_digest(m):
    return walker.digest(m, comments='keep')


def both(a, b):
    """(a == b, b == a) as booleans; exceptions propagate."""
    return bool(a == b), bool(b == a)


def expect_equal(col, a, b, mech, what, wit):
    col.ev()
    try:
        x, y = both(a, b)
    except Exception as e:
        col.violation(f'eq-raised:{mech}', f'{what}: == raised {type(e).__name__}: {e}', wit)
        return False
    if x != y:
        col.violation(f'asymmetric:{mech}', f'{what}: a==b is {x} but b==a is {y}', wit)
        return False
    if not x:
        col.violation(f'equal-pair-unequal:{mech}', f'{what}: compares unequal', wit)
        return False
    ne = bool(a != b)
    if ne:
        col.violation(f'ne-inconsistent:{mech}', f'{what}: == and != both true', wit)
        return False
    return True


def expect_unequal(col, a, b, mech, what, wit):
    col.ev()
    try:
        x, y = both(a, b)
    except Exception as e:
        col.violation(f'eq-raised:{mech}', f'{what}: == raised {type(e).__name__}: {e}', wit)
        return False
    if x != y:
        col.violation(f'asymmetric:{mech}', f'{what}: a==b is {x} but b==a is {y}', wit)
        return False
    if x:
        col.violation(f'unequal-pair-equal:{mech}', f'{what}: still compares equal', wit)
        return False
    return True


def by_path(root):
    return dict(walker.walk(root))


def run_case(col, r, idx):
    P = common.parser()
    acl = idx % 4 != 0
    # a third of the documents live in a store of 2..10-token blocks; the second parse and all copies use ordinary blocks, so equal
    # models are laid out differently in their stores
    lf = r.choice([2, 3, 5, 10]) if idx % 3 == 0 else 1000
    storemodel.set_load_factor(lf)
    try:
        text, a = (gen.accepted_layout(r, P, auto_claim_comments=acl) if idx % 4 == 1 else
                   gen.accepted_document(r, P, gen.DEFAULT, n=r.randint(1, 5), auto_claim_comments=acl))
    finally:
        storemodel.set_load_factor(1000)
    if lf != 1000:
        col.count('documents_in_small_blocks')
    if a is None:
        col.skip('document rejected by parse')
        return
    wit = {'text': text, 'acl': acl}
    b = P.parse(text, models.File, auto_claim_comments=acl)
    pa, pb = by_path(a), by_path(b)
    if list(pa) != list(pb):
        col.violation('two-parses-differ-in-shape', 'parsing the same text twice gave trees of different shape', wit)
        return
    if idx % 3 == 1:
        # entries and postings with an indent_by of their own (assignable at any time; part of what equality compares)
        for _, m_ in walker.tree_models(a):
            if 'indent_by' in vars(m_) and r.random() < 0.5:
                m_.indent_by = r.choice(['  ', '\t', '      ', ' '])
                col.count('models_with_custom_indent_by')
        b = None
    c = copy.deepcopy(a)
    pc = by_path(c)
    for path, m in pa.items():
        col.count('equal_pairs', 2)
        if isinstance(m, mbase.RawTreeModel):
            col.nontrivial(text, 'equal', path)
        if b is not None and not expect_equal(col, m, pb[path], f'parse-twice:{type(m).__name__}', f'{path} of two parses', dict(wit, path=path)):
            return
        if path in pc and not expect_equal(col, m, pc[path], f'deepcopy:{type(m).__name__}', f'{path} and its deep copy', dict(wit, path=path)):
            return
    # sub-models copied on their own: the copy lives in a fresh store of its own
    subs = [(p_, m_) for p_, m_ in pa.items() if isinstance(m_, mbase.RawTreeModel) and m_ is not a and len(m_.tokens) > 1]
    for path, m in r.sample(subs, min(8, len(subs))):
        col.count('equal_pairs')
        col.count('submodel_copies')
        if not expect_equal(col, m, copy.deepcopy(m), f'deepcopy-submodel:{type(m).__name__}', f'{path} and its own deep copy',
                            dict(wit, path=path, lf=lf)):
            return
    # one deepcopy call over a container that holds a model and one of its own descendants: each copy equals its original
    tms = [(p_, m_) for p_, m_ in pa.items() if isinstance(m_, mbase.RawTreeModel) and not isinstance(m_, Repeated)]
    for _ in range(2):
        p_, m_ = r.choice(tms)
        inner = [(q, x) for q, x in walker.walk(m_, p_) if x is not m_ and isinstance(x, mbase.RawTreeModel) and not isinstance(x, Repeated)]
        if not inner:
            continue
        q, x = r.choice(inner)
        col.count('container_copy_pairs')
        try:
            got = copy.deepcopy((x, m_) if r.random() < 0.5 else {'outer': m_, 'inner': x})
        except Exception as e:
            col.ev()
            col.violation(f'container-deepcopy-raised:{type(m_).__name__}', f'one deepcopy over {p_} and its descendant {q} raised {type(e).__name__}: {e}',
                          dict(wit, path=p_, inner=q))
            return
        c_in, c_out = (got[0], got[1]) if isinstance(got, tuple) else (got['inner'], got['outer'])
        if not expect_equal(col, m_, c_out, f'container-copy:{type(m_).__name__}', f'{p_} and its copy taken inside a container', dict(wit, path=p_)):
            return
        if not expect_equal(col, x, c_in, f'container-copy:{type(x).__name__}', f'{q} and its copy taken inside a container', dict(wit, path=q)):
            return
    # a model and a child that spans exactly the same tokens (an expression and its only term, a cost and its braces) are models of
    # different types: never equal
    n_same_span = 0
    for path, m in pa.items():
        if not isinstance(m, mbase.RawTreeModel) or n_same_span >= 12:
            continue
        for k_, c_ in walker.children(m):
            if isinstance(c_, mbase.RawTreeModel) and type(c_) is not type(m) and c_.first_token is m.first_token and c_.last_token is m.last_token:
                n_same_span += 1
                col.count('same_span_parent_child_pairs')
                if not expect_unequal(col, m, c_, f'same-span:{type(m).__name__}/{type(c_).__name__}', f'{path} and its child {k_} (same tokens, other type)',
                                      dict(wit, path=path)):
                    return
    # token laws on tokens of this document
    toks = [t for t in a.token_store]
    for _ in range(min(40, len(toks))):
        x, y = r.choice(toks), r.choice(toks)
        col.count('token_law_pairs')
        col.ev()
        eq = bool(x == y)
        ref = (x.RULE == y.RULE and x.raw_text == y.raw_text)
        if eq != ref or bool(y == x) != eq:
            col.violation('token-eq', f'{x!r} == {y!r} is {eq}; same rule and text: {ref}', wit)
            return
        if eq and hash(x) != hash(y):
            col.violation('token-hash', f'{x!r} == {y!r} but their hashes differ', wit)
            return
    # token laws across an edit: a token that was hashed, then edited through value / raw_text, must still hash like an equal token
    from .. import values
    cands = [t for t in toks if hasattr(type(t), 'value')]
    for t in r.sample(cands, min(6, len(cands))):
        hash(t)
        v = values.value_for(r, t, hostile=False)
        if v is None:
            continue
        try:
            if r.random() < 0.5:
                t.value = v
                how = 'value'
            else:
                t.raw_text = (models.BlockComment.from_value(v, indent=t.indent) if isinstance(t, models.BlockComment) else type(t).from_value(v)).raw_text
                how = 'raw_text'
            twin = type(t).from_raw_text(t.raw_text)
        except Exception:
            continue
        col.ev()
        col.count('token_law_after_edit')
        col.nontrivial(text, 'hash-after-edit', type(t).__name__, repr(v))
        if not (t == twin and twin == t):
            col.violation(f'token-eq-after-edit:{type(t).__name__}', f'after assigning {how}, {t!r} != a fresh token with the same rule and text', wit)
            return
        if hash(t) != hash(twin) or t not in {twin}:
            col.violation(f'token-hash-after-edit:{type(t).__name__}', f'after assigning {how}, {t!r} equals a fresh token of the same text but hashes differently', wit)
            return
    # "equal exactly when": an edited document and a fresh parse of its printed text have the same type, print the same text and -
    # where their trees (with comment ownership) are the same - must compare equal
    if idx % 4 in (2, 3):
        e = P.parse(text, models.File)
        how = r.choice(['meta-added', 'meta-removed', 'claims-round-trip', 'arithmetic', 'arithmetic', 'arithmetic'])
        try:
            ents = [m_ for m_ in e.raw_directives if hasattr(type(m_), 'meta')]
            if how == 'arithmetic':
                mg = ops.MiscGenerator(r)
                done = 0
                for _ in range(r.randint(1, 3)):
                    op = mg.arith_op(e)
                    if op is None:
                        break
                    op.apply()
                    done += 1
                if not done:
                    raise LookupError('no expression')
                col.count('arithmetic_edit_pairs')
                if not expect_equal(col, e, copy.deepcopy(e), 'edited-vs-its-copy:arithmetic', 'document after in-place arithmetic and its deep copy', dict(wit, edit=op.desc)):
                    return
            elif how == 'meta-added' and ents:
                r.choice(ents).meta['kq'] = 'v'
            elif how == 'meta-removed' and any(len(m_.raw_meta) for m_ in ents):
                r.choice([m_ for m_ in ents if len(m_.raw_meta)]).raw_meta.clear()
            else:
                how = 'claims-round-trip'
                mg = ops.MiscGenerator(r)
                for _ in range(r.randint(2, 8)):
                    op = mg.claim_op(e)
                    if op is not None:
                        try:
                            op.apply()
                        except ValueError:
                            pass
                e.auto_claim_comments()
            g = P.parse(common.pr(e), models.File)
        except Exception:
            g = None
        if g is not None and common.pr(g) == common.pr(e) and walker.digest(e, comments='keep') == walker.digest(g, comments='keep'):
            col.ev()
            col.count('same_text_same_tree_pairs')
            col.count('same_text_same_tree:' + how)
            x, y = both(e, g)
            if not (x and y):
                zw = lambda f_: [(type(t).__name__, i) for i, t in enumerate(f_.token_store) if not t.raw_text]
                vis = lambda f_: [(type(t).__name__, t.raw_text) for t in f_.token_store if t.raw_text]
                mech = KF_ZERO_WIDTH if vis(e) == vis(g) and zw(e) != zw(g) else f'equal-pair-unequal:edited-vs-reparsed:{how}'
                col.violation(mech, f'after {how} the document and a fresh parse of its printed text have the same text and the same tree '
                              f'(with comment ownership) but compare unequal' + (': they differ in where zero-width tokens (dedent marks, '
                              'list placeholders) sit' if mech == KF_ZERO_WIDTH else ''), dict(wit, edit=how, printed=common.pr(e)))
                if mech != KF_ZERO_WIDTH:
                    return
    a = P.parse(text, models.File, auto_claim_comments=acl)      # the edits above were made on `a`: take a fresh parse for what follows
    pa = by_path(a)
    toks = [t for t in a.token_store]
    # (0) same document with a token added or removed outside every directive (trailing / leading blank lines, final newline):
    #     the printed texts differ, so the files must be unequal
    for v in (text + '\n', text + '  ', '\n' + text, text.rstrip('\r\n'), text.rstrip('\r\n \t'), text + '\n\n', text + '\n; tail comment'):
        if v == text:
            continue
        try:
            bv = P.parse(v, models.File, auto_claim_comments=acl)
        except Exception:
            continue
        col.count('whole_file_text_perturbations')
        col.nontrivial(text, 'file-text', v[-12:], len(v))
        if not expect_unequal(col, a, bv, 'file-text-differs', 'two files whose printed texts differ only outside the directives',
                              dict(wit, other_text=v)):
            return
    # (1) token text perturbation
    vis = [t for t in toks if t.raw_text]
    for _ in range(3):
        if not vis:
            break
        b = P.parse(text, models.File, auto_claim_comments=acl)
        btoks = [t for t in b.token_store if t.raw_text]
        k = r.randrange(len(btoks))
        tk = btoks[k]
        new = tk.raw_text + (' ' if isinstance(tk, walker.SPACING) else 'x')
        tk._update_raw_text(new) if not hasattr(type(tk), 'value') else tk._update_raw_text(new)
        col.count('token_perturbations')
        col.count('tokcls:' + type(tk).__name__)
        col.nontrivial(text, 'token', k)
        w2 = dict(wit, perturbation=f'text of token {k} ({type(tk).__name__}) changed to {new!r}')
        pb = by_path(b)
        off = {id(t): i for i, t in enumerate(b.token_store)}
        ti = off[id(tk)]
        for path, m in pa.items():
            mb = pb[path]
            if isinstance(mb, mbase.RawTokenModel):
                contains = mb is tk
            else:
                try:
                    contains = off[id(mb.first_token)] <= ti <= off[id(mb.last_token)]
                except Exception:
                    continue
            if contains:
                if not expect_unequal(col, m, mb, f'token-text:{type(tk).__name__}', f'{path} after changing token {k}', dict(w2, path=path)):
                    return
            elif isinstance(mb, mbase.RawTreeModel) and r.random() < 0.2:
                if not expect_equal(col, m, mb, f'untouched-submodel:{type(mb).__name__}', f'{path} (does not contain the changed token)', dict(w2, path=path)):
                    return
    # (2) child added / removed / replaced through the catalog
    g = ops.Generator(_corpus, r, index_mode='inrange',
                      kinds=('optional_node', 'required_node', 'unordered_node', 'optional_value', 'raw_list', 'raw_list_comments', 'filtered',
                             'string_view', 'meta', 'custom_node'))
    for _ in range(3):
        b = P.parse(text, models.File, auto_claim_comments=acl)
        op = g.next_op(b)
        if op is None:
            continue
        try:
            op.apply()
        except Exception:
            continue
        col.count('child_perturbations')
        col.count(f'field:{type(op.parent).__name__}.{op.attr}')
        try:
            differs = common.pr(b) != text or full_digest(b) != full_digest(a)
        except Exception:
            continue
        w2 = dict(wit, perturbation=op.desc, printed=common.pr(b))
        col.nontrivial(text, 'child', op.desc)
        if differs:
            if not expect_unequal(col, a, b, f'child:{op.kind}', f'document after {op.desc}', w2):
                return
        if not _against_reparse(col, P, b, acl, f'after {op.desc}', w2):
            return
    # a token that moves to another slot of the same model without moving in the text: payee and narration are adjacent optional
    # strings, and a lone string is the narration for the parser
    b = P.parse(text, models.File, auto_claim_comments=acl)
    txns = [(p, m) for p, m in by_path(b).items() if isinstance(m, models.Transaction) and m.raw_string1 is not None and m.raw_string2 is not None]
    if txns:
        p, m = r.choice(txns)
        m.raw_string2 = None
        col.count('slot_perturbations')
        col.nontrivial(text, 'slot', p)
        if not _against_reparse(col, P, b, acl, f'after {p}.raw_string2 = None (the remaining string stays the payee)', dict(wit, path=p)):
            return
    # (3) comment re-attribution
    b = P.parse(text, models.File, auto_claim_comments=True)
    a_claimed = a if acl else P.parse(text, models.File, auto_claim_comments=True)
    cands = [(p, m) for p, m in walker.walk(b) if isinstance(m, SurroundingCommentsMixin)
             and (vars(m).get('_leading_comment') is not None or vars(m).get('_trailing_comment') is not None)]
    if cands:
        p, m = r.choice(cands)
        if vars(m).get('_leading_comment') is not None:
            m.unclaim_leading_comment()
            how = f'{p}.unclaim_leading_comment()'
        else:
            m.unclaim_trailing_comment()
            how = f'{p}.unclaim_trailing_comment()'
        col.count('attribution_perturbations')
        col.nontrivial(text, 'attribution', how)
        if not expect_unequal(col, a_claimed, b, 'attribution:unclaim', f'document after {how}', dict(wit, perturbation=how)):
            return
    if any(isinstance(t, models.BlockComment) for t in toks):
        d = P.parse(text, models.File, auto_claim_comments=False)
        col.count('attribution_perturbations')
        if not expect_unequal(col, a_claimed, d, 'attribution:on-vs-off', 'parse with attribution on vs off', dict(wit, perturbation='auto_claim_comments on vs off')):
            return
    # leading of X -> trailing of the neighbour above (same comment, other owner)
    b = P.parse(text, models.File, auto_claim_comments=True)
    ds = list(b.raw_directives_with_comments)
    for i in range(1, len(ds)):
        x, y = ds[i - 1], ds[i]
        if isinstance(x, SurroundingCommentsMixin) and isinstance(y, SurroundingCommentsMixin) and vars(y).get('_leading_comment') is not None \
                and vars(x).get('_trailing_comment') is None:
            cm = y.unclaim_leading_comment()
            try:
                got = x.claim_trailing_comment()
            except ValueError:
                break
            if got is cm:
                col.count('attribution_perturbations')
                col.nontrivial(text, 'attribution', 'leading->trailing', i)
                if not expect_unequal(col, a_claimed, b, 'attribution:leading-to-trailing',
                                      f'directive {i}\'s leading comment re-attributed as trailing comment of directive {i - 1}',
                                      dict(wit, perturbation=f'leading comment of directive {i} -> trailing comment of directive {i - 1}')):
                    return
            break
    # (4) same text, different type
    if idx % 5 == 0:
        t1, t2, texts = r.choice(SAME_TEXT_TYPES)
        s = r.choice(texts)
        try:
            m1, m2 = P.parse(s, t1), P.parse(s, t2)
        except Exception:
            m1 = None
        if m1 is not None and common.pr(m1) == common.pr(m2):
            col.count('type_perturbations')
            col.nontrivial('type', s, t1.__name__, t2.__name__)
            if not expect_unequal(col, m1, m2, f'same-text-other-type:{t1.__name__}/{t2.__name__}', f'{s!r} parsed as {t1.__name__} and as {t2.__name__}',
                                  {'text': s}):
                return
        s, classes = r.choice(SAME_TEXT_TOKENS)
        c1, c2 = r.sample(classes, 2)
        try:
            k1, k2 = c1.from_raw_text(s), c2.from_raw_text(s)
        except Exception:
            k1 = None
        if k1 is not None:
            col.count('type_perturbations')
            if not expect_unequal(col, k1, k2, f'same-text-other-rule:{c1.__name__}/{c2.__name__}', f'tokens {k1!r} and {k2!r}', {'text': s}):
                return
    if idx % 211 == 0:
        col.sample({'text': text, 'acl': acl, 'sub_models_compared': len(pa)})



def _against_reparse(col, P, b, acl, what, wit):
    """b against a fresh parse of b's own printed text: same type and same text by construction, so equality must follow the
    structure alone. False = a violation was reported."""
    try:
        printed = common.pr(b)
        c = P.parse(printed, models.File, auto_claim_comments=acl)
        same = common.pr(c) == printed and full_digest(c) == full_digest(b)
    except Exception:
        return True
    col.count('edited_vs_reparse_pairs')
    if same:
        col.count('edited_vs_reparse_same_structure')
        return True         # (zero-width layout may still differ: the known finding's subject, judged by the same-text-same-tree pairs)
    col.count('edited_vs_reparse_other_structure')
    return expect_unequal(col, b, c, 'same-text-other-structure', f'document {what} and a fresh parse of its printed text', dict(wit, printed=printed))


def _pinned_zero_width(col):
    """Pinned witness of the known finding: the edited entry has no dedent mark, the re-parsed one has."""
    P = common.parser()
    f = P.parse('2000-01-01 open Assets:A\n', models.File)
    f.directives[0].meta['kq'] = 'v'
    g = P.parse(common.pr(f), models.File)
    col.ev()
    if common.pr(f) == common.pr(g) and walker.digest(f, comments='keep') == walker.digest(g, comments='keep') and not (f == g and g == f):
        col.violation(KF_ZERO_WIDTH, "open.meta['kq'] = 'v' and a fresh parse of the printed text: same text, same tree, unequal", {'printed': common.pr(f)})


PINNED = [(KF_ZERO_WIDTH, _pinned_zero_width)]

def derive(counters):
    counters['class_fields_perturbed'] = sum(1 for k in counters if k.startswith('field:'))
    counters['token_classes_perturbed'] = sum(1 for k in counters if k.startswith('tokcls:'))
