"""C06 What the model says is what the printed text says (re-parse + structural digest after syntax-preserving histories)."""
import importlib
from .. import valuestate, common, gen, ops, walker, storemodel
from autobean_refactor import models

CASES = {'quick': 4000, 'thorough': 60000}
SMALL_BLOCKS = 4      # runner: every 4th case keeps its stores in 2..10-token blocks
GATES = {
    'quick': {'cases_in_small_blocks': 50, 'evaluations': 7000, 'steps_with_visible_change': 6000, 'op_kinds_seen': 60, 'crlf_documents': 300, 'kind:header-strings': 250, 'kind:constructed-custom': 400, 'constructed_custom_values_parenthesised': 20},
    'thorough': {'evaluations': 200000, 'op_kinds_seen': 70},
}
RULE = ('case = one accepted generated document and a history of 1..12 (thorough ..60) *syntax-preserving* catalog operations (the '
        'catalog minus raw_text/spacing/indent overrides, out-of-domain values, comment nodes whose indentation class does not fit the '
        'slot, and signed numbers placed among custom values, which docs/special/numbers.md tells users to parenthesise). One '
        'evaluation = after a step, parse(print(file)) must succeed and its structural digest (nested (class, field, token text); '
        'zero-width tokens and block comments dropped, inline comments right-stripped, IGNORED lines stripped of trailing blanks/CR) '
        'must equal the digest of the edited in-memory model, the sequences of comment lines must agree, and both trees must read the same '
        'through the public read API (beanmon.valuestate: every non-callable public attribute of every model - value properties, list, '
        'string and mapping views, raw node properties, custom getters; all of them read once before the first edit so that whatever the '
        'library caches is cached; decimals compared as numbers, nodes by digest; attribution, spacing and indent_by excluded). Non-trivial = the step '
        'changed a visible token; distinct = hash(text, op-log prefix).')
RULE += (" Also (round 13): at the end of 30 % of the histories a custom directive is constructed (from_value or from_children, 2..4 values, signed multi-term expressions among them) and inserted among the entries; the constructors promise the disambiguating parentheses, so no juxtaposition skip applies to it.")
RULE += (" Also (round 8): header-string sequences (2..4 assignments of None / '' / text to payee and narration of one transaction, compared after each).")
ASSUMPTIONS = ['comment lines are compared as a sequence (adjacent comments of one indentation class re-lex as one token)',
               'indent_by, zero-width tokens and comment attribution are not part of the digest']

_corpus = None


def setup(col):
    global _corpus
    _corpus = ops.Corpus(col.seed, 70)


def compare(col, f, text, log, extra):
    out = common.pr(f)
    wit = dict(extra, text=text, log=log, printed=out)
    try:
        g = common.parser().parse(out, models.File)
    except Exception as e:
        return ('reparse-fails', f'the printed document no longer parses: {type(e).__name__}: {str(e)[:200]}', wit)
    # does the lexer cut the printed text into other pieces than the tokens the model holds? (the signature of abutting tokens)
    wit['relex_differs'] = [t.raw_text for t in f.token_store if t.raw_text] != [t.raw_text for t in g.token_store if t.raw_text]
    d1, d2 = walker.digest(f), walker.digest(g)
    if d1 != d2:
        return ('digest-differs', 'the re-parsed document differs in structure/values from the edited model: ' + _first_diff(d1, d2), wit)
    if _clines(f) != _clines(g):
        return ('comment-lines-differ', 'the comment lines of the re-parsed document differ', wit)
    # ... and the same through the public read API (views, value properties, custom getters - whatever is cached behind them)
    dv = valuestate.first_difference(valuestate.value_state(f), valuestate.value_state(g))
    col.count('value_state_comparisons')
    if dv:
        return (f'value-state-differs:{dv[1]}.{dv[2]}', f'{dv[0]}.{dv[2]} reads {str(dv[3])[:160]} on the edited model, {str(dv[4])[:160]} on the '
                're-parsed document', wit)
    return None


def _clines(f):
    # trailing blanks are not part of a comment's content: when an edit puts a comment in front of a whitespace-only line of the
    # input, the re-lexed comment token swallows those blanks (same grammar artefact as for IGNORED lines and inline comments)
    return [ln.rstrip(' \t\r') for ln in walker.comment_lines(f.token_store)]


def _first_diff(a, b, path='$'):
    if type(a) is not type(b) or not isinstance(a, tuple):
        return f'{path}: {a!r:.80} vs {b!r:.80}'
    if len(a) == 2 and isinstance(a[0], str) and isinstance(a[1], tuple) and isinstance(b[1], tuple) and a[0] == b[0]:
        ca, cb = a[1], b[1]
        for i, (x, y) in enumerate(zip(ca, cb)):
            if x != y:
                if x[0] == y[0]:
                    return _first_diff(x[1], y[1], f'{path}.{a[0]}.{x[0]}')
                return f'{path}.{a[0]}: field {x[0]} vs {y[0]}'
        if len(ca) != len(cb):
            return f'{path}.{a[0]}: {len(ca)} vs {len(cb)} children'
    return f'{path}: {a!r:.80} vs {b!r:.80}'


KF_ABUT = 'input-abutting-tokens'
KF_ODD = 'unindented-comment-inside-indented-list'


def _unindented_comment_in_indented_list(m):
    """In the input, an unindented comment directly below an entry that is itself followed by an indented comment lies inside the
    entry's indented block and becomes an element of its meta/postings list; items added after it land behind a line that ends
    the block when the text is lexed again."""
    for a in ('raw_meta_with_comments', 'raw_postings_with_comments'):
        if ops.desc_of(type(m), a) is not None:
            try:
                if any(isinstance(x, models.BlockComment) and not x.indent for x in getattr(m, a)):
                    return True
            except Exception:
                pass
    return False


def _custom_juxtaposition(f):
    for d in f.raw_directives:
        if isinstance(d, models.Custom):
            vs = list(d.raw_values)
            for a, b in zip(vs, vs[1:]):
                if isinstance(a, models.NumberExpr) and common.pr(b).lstrip()[:1] in ('+', '-'):
                    return True
    return False


def respace(f):
    """The same document with a blank inserted wherever the *input* abuts two visible non-spacing tokens."""
    out = []
    prev = None
    n = 0
    for t in f.token_store:
        if not t.raw_text:
            continue
        if prev is not None and not isinstance(prev, walker.SPACING + (models.Indent, models.BlockComment)) \
                and not isinstance(t, walker.SPACING + (models.BlockComment,)):
            out.append(' ')
            n += 1
        out.append(t.raw_text)
        prev = t
    return ''.join(out), n


def history(col, text, f, hseed, lf, count):
    """Runs one history; returns (violation | None, log). count=False for the classification re-run."""
    r = common.rng_for(hseed[0], 'C06-history', hseed[1])
    g = ops.Generator(_corpus, r, syntax_only=True, index_mode='grid')
    nsteps = r.choice([1, 2, 4, 12]) if col.tier == 'quick' else r.choice([2, 6, 12, 30, 60])
    log = []
    valuestate.value_state(f)       # every view and cached getter has been read once before the first edit
    for s in range(nsteps):
        op = g.next_op(f)
        if op is None:
            continue
        pre = walker.visible(f.token_store)
        odd_layout = _unindented_comment_in_indented_list(op.parent)
        try:
            op.apply()
        except Exception as e:
            if count:
                col.count('raised:' + ('expected' if op.expect else 'unexpected'))
                col.skip(f'step raised {type(e).__name__}; history ends (C19/C10 decide refusals)')
            return None, log
        log.append(op.desc)
        if _custom_juxtaposition(f):
            # docs/special/numbers.md: adding, removing or moving `custom` arguments can put a signed number right after a number;
            # the user has to parenthesise then. Such a history has left the syntax-preserving set.
            if count:
                col.skip('custom values: signed number now follows a number (documented: user must parenthesise)')
            return None, log
        if count:
            col.count('kind:' + op.kind)
            col.ev()
            if walker.visible(f.token_store) != pre:
                col.count('steps_with_visible_change')
                col.nontrivial(text, tuple(log))
        v = compare(col, f, text, log, {'lf': lf})
        if v:
            if odd_layout and getattr(op, 'list_attr', None) in ('raw_meta_with_comments', 'raw_postings_with_comments'):
                return (KF_ODD, f'after {op.desc}: {v[1]}', dict(v[2], note='the edited list held an unindented comment before the edit')), log
            return (f'{v[0]}:{op.kind}', f'after {op.desc}: {v[1]}', v[2]), log
    # the two header strings of a transaction, a short assignment sequence: payee and narration share adjacent optional slots, and
    # what a lone string means is decided by the parser (narration) - the model has to keep saying what the text says
    txns = [(p, m) for p, m in walker.walk(f) if isinstance(m, models.Transaction)]
    if txns and r.random() < 0.35:
        p, m = r.choice(txns)
        for _ in range(r.randint(2, 4)):
            a = r.choice(['payee', 'narration'])
            val = r.choice([None, None, '', '', 'x', 'q "y"'])
            try:
                setattr(m, a, val)
            except Exception as e:
                if count:
                    col.skip(f'header string step raised {type(e).__name__}; history ends')
                return None, log
            log.append(f'{p}.{a} = {val!r}')
            if count:
                col.count('kind:header-strings')
                col.ev()
                col.nontrivial(text, tuple(log))
            v = compare(col, f, text, log, {'lf': lf})
            if v:
                return (f'{v[0]}:header-strings', f'after {log[-1]}: {v[1]}', v[2]), log
    # a custom directive constructed from values and attached (round 13): the constructors promise to parenthesise a value that
    # starts with a sign when it follows a number (docs/special/numbers.md), so what the model holds must be what the text says
    if r.random() < 0.3:
        from .. import builder
        import datetime
        vals = [builder.CUSTOMV(r) for _ in range(r.choice([2, 3, 4]))]
        try:
            if r.random() < 0.5:
                c = models.Custom.from_value(datetime.date(2001, 2, 3), 'built', vals)
                how = 'from_value'
            else:
                ctm = importlib.import_module('autobean_refactor.models.custom')
                c = models.Custom.from_children(models.Date.from_value(datetime.date(2001, 2, 3)), models.EscapedString.from_value('built'),
                                                [ctm._unsimplify_value(x) for x in vals])
                how = 'from_children'
            pos = r.randint(0, len(f.raw_directives_with_comments))
            f.raw_directives_with_comments.insert(pos, c)
        except Exception as e:
            if count:
                col.skip(f'constructed custom step raised {type(e).__name__}; history ends')
            return None, log
        log.append(f'$.raw_directives_with_comments.insert({pos}, Custom.{how}(<{len(vals)} values>)) -> {common.pr(c)!r}')
        if count:
            col.count('kind:constructed-custom')
            col.ev()
            col.nontrivial(text, tuple(log))
            rv = list(c.raw_values)
            if any(isinstance(a, models.NumberExpr) and common.pr(b)[:1] == '(' for a, b in zip(rv, rv[1:])):
                col.count('constructed_custom_values_parenthesised')
        v = compare(col, f, text, log, {'lf': lf})
        if v:
            return (f'{v[0]}:constructed-custom', f'after {log[-1]}: {v[1]}', v[2]), log
    return None, log


def run_case(col, r, idx):
    lf = r.choice([2, 3, 5, 10]) if idx % 3 == 0 else 1000
    storemodel.set_load_factor(lf)
    try:
        prof = gen.DEFAULT if idx % 2 else gen.LF_ONLY
        text, f = gen.accepted_document(r, common.parser(), prof, n=r.randint(1, 6))
        if f is None:
            col.skip('document rejected by parse')
            return
        if '\r\n' in text:
            col.count('crlf_documents')
        spaced, nabut = respace(f)
        if nabut:
            col.count('documents_with_abutting_tokens')
        v, log = history(col, text, f, (col.seed, idx), lf, True)
        if v:
            mech, msg, wit = v
            if nabut and wit.get('relex_differs', True):
                # causal classifier for the known finding: the printed text lexes into other tokens than the model holds (or is
                # rejected), and the same history on the re-spaced input is fine
                try:
                    f2 = common.parser().parse(spaced, models.File)
                    v2, log2 = history(col, spaced, f2, (col.seed, idx), lf, False)
                    if v2 is None and len(log2) >= len(log):
                        mech = KF_ABUT
                        wit = dict(wit, respaced_input=spaced, note='the same history on the re-spaced input satisfies the oracle')
                except Exception:
                    pass
            col.violation(mech, msg, wit)
            return
        if idx % 397 == 0:
            col.sample({'text': text, 'ops': log, 'printed': common.pr(f)})
    finally:
        storemodel.set_load_factor(1000)


def _pinned_abut(col):
    f = common.parser().parse('2000-01-01 *\n  Assets:Foo  0.5AB\n', models.File)
    f.directives[0].postings[0].raw_number = None
    v = compare(col, f, '2000-01-01 *\n  Assets:Foo  0.5AB\n', ['postings[0].raw_number = None'], {})
    col.ev()
    if v:
        col.violation(KF_ABUT, v[1], v[2])


def _pinned_odd(col):
    text = '2000-01-01 close Assets:Foo\n; c\n  ; d\n'
    f = common.parser().parse(text, models.File)
    f.directives[0].meta['aa'] = 'v'
    f.directives[0].raw_meta_with_comments.insert(0, models.MetaItem.from_value('kk', 'v', indent='    '))
    v = compare(col, f, text, ["directives[0].meta['aa'] = 'v'", "directives[0].raw_meta_with_comments.insert(0, MetaItem.from_value('kk', 'v', indent='    '))"], {})
    col.ev()
    if v:
        col.violation(KF_ODD, v[1], v[2])


PINNED = [(KF_ABUT, _pinned_abut), (KF_ODD, _pinned_odd)]


def derive(counters):
    counters['op_kinds_seen'] = sum(1 for k in counters if k.startswith('kind:'))
