"""C13 Number expressions evaluate and compose like ordinary arithmetic."""
import copy
import decimal
import operator
import re

from .. import common, walker
from autobean_refactor import models

D = decimal.Decimal


class _Units(int):
    """An int that is not exactly int (an IntEnum member, a counter type, a bool): still a number for every operator."""


class _Money(decimal.Decimal):
    """Likewise for Decimal."""
CASES = {'quick': 4000, 'thorough': 120000}
SMALL_BLOCKS = 4      # runner: every 4th case keeps its stores in 2..10-token blocks
GATES = {
    'quick': {'cases_in_small_blocks': 50, 'evaluations': 12000, 'parsed_values': 6000, 'applications': 5000, 'attached_operand_applications': 600,
              'forms_seen': 11, 'form:inplace_self': 150, 'attribute_form_inplace': 40, 'leaf_edits': 500, 'cases_under_another_decimal_context': 300, 'whole_value_assignments': 250, 'whole_value_assignments_int': 100, 'subclass_constant_operands': 300, 'zero_constant_operands': 200, 'independence_checks': 3000, 'chains_ge3': 400, 'results_needing_parens': 300},
    'thorough': {'evaluations': 400000, 'forms_seen': 10},
}
RULE = ('case = two random expression texts (depth <=4, arbitrary spacing, redundant parentheses, thousands separators) parsed as '
        'NumberExpr, then a chain of 1..6 operator applications mixing plain / reflected (int, Decimal on the left) / in-place / unary '
        'forms with operands that are free-standing, deep copies, or attached inside a parsed document (posting number, balance '
        'number, price amount, cost, meta value). One evaluation = one parsed value compared with an independent recursive-descent '
        'evaluator over the characters, or one application checked: result value == arithmetic on the operand values, the evaluator on '
        'the printed result == that value, re-parsing the printed result gives it again, M3 on the result, and for non-in-place forms '
        'both operands print as before, keep a valid tree, the token snapshot of every owning document is unchanged, the result is a new '
        'object sharing no token or store with an operand, and every operand of an earlier application keeps its snapshot through all '
        'later steps of the chain (also in-place ones applied to the result). Numeric operands include 0 and 0.00. Non-trivial = '
        'the expression has >=1 operator; distinct = hash(expression texts, operator chain). Zero divisors are not generated.')
RULE += (' Also (rounds 8-12): operands that are instances of subclasses of int / Decimal; whole-value assignments (int, Decimal); a fifth of the cases run under another decimal context (precision 6..60, four rounding modes) - the reference evaluator follows the active context.')
ASSUMPTIONS = ['reference evaluator: decimal default context, left-associative, unary binds tighter than binary (DESIGN.md A.5)']

_TOK = re.compile(r'[0-9][0-9,]*(?:\.[0-9]*)?|[-+*/()]')


def ev(s):
    toks = _TOK.findall(s)
    if ''.join(toks) != re.sub(r'\s+', '', s):
        raise ValueError('untokenisable expression text ' + repr(s))
    pos = [0]

    def peek():
        return toks[pos[0]] if pos[0] < len(toks) else None

    def take():
        pos[0] += 1
        return toks[pos[0] - 1]

    def atom():
        t = take()
        if t == '(':
            v = add()
            if take() != ')':
                raise ValueError('unbalanced')
            return v
        if t in '+-':
            v = atom()
            return v if t == '+' else (v.copy_negate() if v else -v)      # a sign is not arithmetic: no context rounding
        return D(t.replace(',', ''))

    def mul():
        v = atom()
        while peek() in ('*', '/'):
            o = take()
            w = atom()
            v = v * w if o == '*' else v / w
        return v

    def add():
        v = mul()
        while peek() in ('+', '-'):
            o = take()
            w = mul()
            v = v + w if o == '+' else v - w
        return v
    v = add()
    if pos[0] != len(toks):
        raise ValueError('trailing tokens in ' + repr(s))
    return v


def rexpr(r, d=0):
    k = r.random()
    if d > 3 or k < 0.4:
        if r.random() < 0.12:
            # more significant digits than the decimal context keeps, some of them nearly equal (sums that cancel)
            return r.choice(['1234567890.5', '1234567891.12345678901234567890', '0.1234567890123456789012345678901234',
                             '98765432109876543210987654321098765.0',   # (with a point: <4+ digits>-1-2 is a DATE lexeme wherever the grammar accepts a date)
                             '1234567891.12345678901234567891', '1.2345678901234567890123456789'])
        return r.choice(['1', '2', '3.5', '1,000', '0.25', '7.', '12', '0.1', '99'])
    if k < 0.5:
        return r.choice('+-') + r.choice(['', ' ']) + rexpr(r, d + 1)
    if k < 0.6:
        return '(' + r.choice(['', ' ']) + rexpr(r, d + 1) + r.choice(['', ' ']) + ')'
    return rexpr(r, d + 1) + r.choice(['', ' ', '  ', '\t']) + r.choice('+-*/') + r.choice(['', ' ']) + rexpr(r, d + 1)


OPS = {'+': operator.add, '-': operator.sub, '*': operator.mul, '/': operator.truediv}
IOPS = {'+': operator.iadd, '-': operator.isub, '*': operator.imul, '/': operator.itruediv}
ARITH_EXC = (decimal.DivisionByZero, decimal.InvalidOperation, decimal.Overflow, ZeroDivisionError)

DOC_TEMPLATES = [
    ('2000-01-01 *\n    Assets:Foo  {e} USD\n    Assets:Bar\n', lambda f: f.directives[0].postings[0].raw_number),
    ('2000-01-01 balance Assets:Foo {e} ~ 0.01 USD\n', lambda f: f.directives[0].raw_number),
    ('; lead\n2000-01-01 price EUR {e} USD ; c\n', lambda f: f.directives[1 if False else 0].raw_amount.raw_number),
    ('2000-01-01 *\n    Assets:Foo  1 USD {{{e} EUR}}\n', lambda f: f.directives[0].postings[0].cost.raw_amount_comp.raw_number),
    ('2000-01-01 open Assets:Foo\n    num: {e}\n', lambda f: f.directives[0].raw_meta[0].raw_value),
    ('2000-01-01 *\n    Assets:Foo  1 USD @ {e} EUR\n', lambda f: f.directives[0].postings[0].price.raw_number),
]


def _attached(r, text):
    tpl, get = r.choice(DOC_TEMPLATES)
    doc = tpl.replace('{e}', text)
    f = common.parser().parse(doc, models.File)
    e = get(f)
    if not isinstance(e, models.NumberExpr) or common.pr(e) != text:
        raise AssertionError(f'template did not yield the expression: {doc!r} -> {e!r}')
    return f, e


def _owner_attr(doc, e):
    """(parent model, public attribute) through which the expression e is reachable in doc, or None."""
    for _, m in walker.tree_models(doc):
        for k, c in walker.children(m):
            if c is e:
                attr = 'raw' + k.split('[')[0] if k.startswith('_') else None
                if attr and isinstance(getattr(type(m), attr, None), object) and hasattr(type(m), attr):
                    try:
                        if getattr(m, attr) is e:
                            return m, attr
                    except Exception:
                        return None
    return None


class Operand:
    def __init__(self, expr, value, kind, doc=None):
        self.expr, self.value, self.kind, self.doc = expr, value, kind, doc

    def snap(self):
        return (common.pr(self.expr), walker.ids_texts(self.doc.token_store) if self.doc is not None else walker.ids_texts(self.expr.token_store))


def make_operand(col, r, text, value):
    kind = r.choice(['free', 'free', 'copy', 'attached', 'attached'])
    P = common.parser()
    if kind == 'attached':
        f, e = _attached(r, text)
        return Operand(e, value, kind, f)
    e = P.parse(text, models.NumberExpr)
    if kind == 'copy':
        e = copy.deepcopy(e)
    return Operand(e, value, kind)


def run_case(col, r, idx):
    if idx % 5 == 4:
        # under another arithmetic context (precision, rounding) than the one that was current when the library was imported:
        # "ordinary arithmetic" is the arithmetic of the context in force, for every operator
        with decimal.localcontext() as ctx:
            ctx.prec = r.choice([6, 12, 40, 60])
            ctx.rounding = r.choice([decimal.ROUND_HALF_EVEN, decimal.ROUND_UP, decimal.ROUND_DOWN, decimal.ROUND_HALF_UP])
            col.count('cases_under_another_decimal_context')
            return _run_case(col, r, idx)
    return _run_case(col, r, idx)


def _run_case(col, r, idx):
    P = common.parser()
    texts = [rexpr(r), rexpr(r), rexpr(r)]
    vals = []
    for s in texts:
        try:
            v = ev(s)
        except ARITH_EXC:
            col.skip('expression divides by zero / invalid for decimal')
            return
        try:
            e = P.parse(s, models.NumberExpr)
        except Exception as ex:
            col.violation('expression-rejected', f'parse({s!r}, NumberExpr) raised {type(ex).__name__}: {ex}', {'text': s})
            return
        col.ev()
        col.count('parsed_values')
        if re.search(r'[-+*/]', s):
            col.nontrivial('parse', s)
        try:
            got = e.value
        except ARITH_EXC:
            col.skip('library raised an arithmetic exception the reference did not')
            return
        if got != v:
            col.violation('parsed-value', f'parse({s!r}).value == {got} but arithmetic gives {v}', {'text': s})
            return
        vals.append(v)
    # chain of applications
    acc = make_operand(col, r, texts[0], vals[0])
    chain = []
    watch = []          # operands of earlier non-in-place applications with their snapshots: later steps must not reach them
    nsteps = r.randint(1, 6)
    for step in range(nsteps):
        if r.random() < 0.15:
            # between two applications a number inside the expression is rewritten in place (after its value has been read):
            # the expression's value is whatever its text now evaluates to
            leaves = [t for t in acc.expr.tokens if isinstance(t, models.Number)]
            if leaves:
                try:
                    acc.expr.value
                except ARITH_EXC:
                    pass
                t = r.choice(leaves)
                newv = r.choice([D('0'), D('1'), D('7'), D('2.50'), D('1234567891.12345678901234567890'), D('100')])
                t.value = newv
                col.ev()
                col.count('leaf_edits')
                txt = common.pr(acc.expr)
                try:
                    want = ev(txt)
                    got = acc.expr.value
                except ARITH_EXC:
                    col.skip('arithmetic exception after a leaf edit')
                    return
                if got != want:
                    col.violation('value-after-leaf-edit', f'after a number inside the expression was set to {newv}, the expression prints {txt!r} '
                                  f'(= {want}) but .value is {got}', {'texts': texts, 'chain': chain, 'printed': txt})
                    return
                if acc.doc is not None and txt not in common.pr(acc.doc):
                    col.violation('leaf-edit-not-in-document', 'the document does not contain the edited expression text', {'texts': texts, 'chain': chain})
                    return
                acc = Operand(acc.expr, want, acc.kind, acc.doc)
        if r.random() < 0.08:
            # value writing replaces the whole expression (docs/special/numbers.md: `expr.value = 8`, a plain int)
            newv = r.choice([8, 8, -3, 0, _Units(6), D('2.50'), D('-0.125'), _Money('0.25'), D('1234567891.12345678901234567890')])
            col.ev()
            col.count('whole_value_assignments')
            if type(newv) is not D:
                col.count('whole_value_assignments_int')
            try:
                acc.expr.value = newv
                got = acc.expr.value
                txt = common.pr(acc.expr)
                want = ev(txt)
            except Exception as e:
                col.violation(f'value-assignment-raised:{type(newv).__name__}', f'expr.value = {newv!r} raised {type(e).__name__}: {e}',
                              {'texts': texts, 'chain': chain})
                return
            if got != D(newv) or want != D(newv):
                col.violation('value-assignment', f'after expr.value = {newv!r} the expression prints {txt!r} (= {want}) and .value is {got}',
                              {'texts': texts, 'chain': chain, 'printed': txt})
                return
            if acc.doc is not None and txt not in common.pr(acc.doc):
                col.violation('value-assignment-not-in-document', 'the document does not contain the new expression text', {'texts': texts, 'chain': chain})
                return
            acc = Operand(acc.expr, D(newv), acc.kind, acc.doc)
        o = r.choice('+-*/')
        form = r.choice(['plain', 'plain', 'plain', 'rint', 'rdec', 'int', 'dec', 'inplace', 'inplace_num', 'neg', 'pos', 'self', 'inplace_self'])
        ti = r.randrange(3)
        other = None
        try:
            if form == 'plain':
                other = make_operand(col, r, texts[ti], vals[ti])
                if o == '/' and other.value == 0:
                    continue
                exp = OPS[o](acc.value, other.value)
            elif form in ('rint', 'rdec'):
                c = r.choice([3, 3, 0, 1, -2, _Units(6), True]) if form == 'rint' else r.choice([_Money('0.25'), D('-2.5'), D('-2.5'), D('0'), D('0.00'), D('1'), D('-1.23456789012345678901234567890123'), D('1234567891.12345678901234567890')])
                if o == '/' and acc.value == 0:
                    continue
                if c == 0:
                    col.count('zero_constant_operands')
                if type(c) not in (int, D):
                    col.count('subclass_constant_operands')
                exp = OPS[o](D(c), acc.value)
            elif form in ('int', 'dec', 'inplace_num'):
                c = r.choice([4, 4, 0, 1, -3, _Units(6), True]) if form != 'dec' else r.choice([_Money('0.25'), D('0.5'), D('0.5'), D('0'), D('0.00'), D('1.0'), D('-1.23456789012345678901234567890123'), D('1234567891.12345678901234567890')])
                if o == '/' and c == 0:
                    continue
                if c == 0:
                    col.count('zero_constant_operands')
                if type(c) not in (int, D):
                    col.count('subclass_constant_operands')
                exp = OPS[o](acc.value, D(c))
            elif form == 'inplace':
                other = make_operand(col, r, texts[ti], vals[ti])
                if other.kind == 'attached':
                    other = Operand(copy.deepcopy(other.expr), other.value, 'copy')   # an attached right operand must be refused: C19
                if o == '/' and other.value == 0:
                    continue
                exp = OPS[o](acc.value, other.value)
            elif form == 'neg':
                exp = acc.value.copy_negate() if acc.value else -acc.value       # signs are exact (no context rounding)
            elif form in ('self', 'inplace_self'):
                # the same expression object on both sides: e + e, e * e, ... and e += e, e *= e, ...
                if o == '/' and acc.value == 0:
                    continue
                exp = OPS[o](acc.value, acc.value)
            else:
                exp = acc.value
        except ARITH_EXC:
            continue
        a_before = acc.snap()
        b_before = other.snap() if other is not None else None
        desc = (form, o, texts[ti] if other is not None else None, acc.kind, other.kind if other else None)
        chain.append(desc)
        wit = {'texts': texts, 'chain': chain, 'left': a_before[0], 'right': b_before[0] if b_before else None}
        inplace = form in ('inplace', 'inplace_num', 'inplace_self')
        try:
            if form == 'plain':
                res = OPS[o](acc.expr, other.expr)
            elif form in ('rint', 'rdec'):
                res = OPS[o](c, acc.expr)
            elif form in ('int', 'dec'):
                res = OPS[o](acc.expr, c)
            elif form == 'inplace':
                res = IOPS[o](acc.expr, other.expr)
            elif form == 'inplace_num':
                own = _owner_attr(acc.doc, acc.expr) if acc.doc is not None and r.random() < 0.6 else None
                if own is not None:
                    # `posting.raw_number *= 2` as Python executes it: the node, edited in place, is stored back through the property
                    col.count('attribute_form_inplace')
                    setattr(own[0], own[1], IOPS[o](getattr(own[0], own[1]), c))
                    res = getattr(own[0], own[1])
                else:
                    res = IOPS[o](acc.expr, c)
            elif form == 'neg':
                res = -acc.expr
            elif form == 'self':
                res = OPS[o](acc.expr, acc.expr)
            elif form == 'inplace_self':
                res = IOPS[o](acc.expr, acc.expr)
            else:
                res = +acc.expr
        except Exception as ex:
            col.ev()
            kinds = f'{acc.kind}/{other.kind if other else "-"}'
            col.violation(f'operator-raised:{form}:{kinds}', f'{form} {o} raised {type(ex).__name__}: {ex}', wit)
            # an exception must not have damaged anything either (statement: operands and documents unchanged)
            if acc.snap() != a_before or (other is not None and other.snap() != b_before):
                col.violation(f'operand-changed-by-raising-operator:{form}:{kinds}', 'operand or its document changed although the operator raised', wit)
            return
        col.ev()
        col.count('applications')
        col.count('form:' + form)
        if acc.kind == 'attached' or (other is not None and other.kind == 'attached'):
            col.count('attached_operand_applications')
        col.nontrivial(tuple(texts), tuple(chain))
        if step >= 2:
            col.count('chains_ge3')
        kinds = f'{acc.kind}/{other.kind if other else "-"}'
        try:
            txt = common.pr(res)
            wit['result'] = txt
            rv = res.value
            if rv != exp:
                col.violation(f'result-value:{form}{o}', f'result value {rv}, arithmetic gives {exp}', wit)
                return
            if ev(txt) != exp:
                col.violation(f'printed-result-evaluates-differently:{form}{o}', f'printed {txt!r} evaluates to {ev(txt)}, expected {exp}', wit)
                return
            if P.parse(txt, models.NumberExpr).value != exp:
                col.violation(f'reparsed-result-value:{form}{o}', f'printed {txt!r} re-parses to another value', wit)
                return
        except ARITH_EXC:
            col.skip('arithmetic exception while evaluating the result')
            return
        except Exception as ex:
            col.violation(f'result-unusable:{form}', f'{type(ex).__name__}: {ex}', wit)
            return
        if '(' in txt and '(' not in (a_before[0] + (b_before[0] if b_before else '')):
            col.count('results_needing_parens')
        root = res if not inplace or acc.doc is None else acc.doc
        errs = walker.check_tree(root)
        if errs:
            col.violation(f'result-tree:{errs[0][0]}:{form}', errs[0][1], wit)
            return
        for w_op, w_snap, w_desc in watch:
            if w_op.expr is not acc.expr and w_op.snap() != w_snap:
                col.violation(f'earlier-operand-changed-by-later-step:{form}', f'an operand of the earlier application {w_desc} changed when '
                              f'{form} {o} was applied to its result: now {common.pr(w_op.expr)!r}', wit)
                return
        if not inplace:
            col.count('independence_checks')
            res_tokens = {id(t) for t in res.token_store}
            for opnd in (acc, other):
                if opnd is not None and (res is opnd.expr or res.token_store is opnd.expr.token_store
                                         or any(id(t) in res_tokens for t in opnd.expr.tokens)):
                    col.violation(f'result-aliases-operand:{form}{o}', 'the result of a non-in-place operator is, or shares tokens with, '
                                  'an operand: a later edit of the result would edit the operand', wit)
                    return
            if acc.snap() != a_before:
                col.violation(f'left-operand-changed:{form}:{kinds}', f'left operand / its document changed: now {common.pr(acc.expr)!r}', wit)
                return
            if other is not None and other.snap() != b_before:
                col.violation(f'right-operand-changed:{form}:{kinds}', f'right operand / its document changed: now {common.pr(other.expr)!r}', wit)
                return
            for opnd in (acc, other):
                if opnd is not None:
                    errs = walker.check_tree(opnd.doc if opnd.doc is not None else opnd.expr)
                    if errs:
                        col.violation(f'operand-tree:{errs[0][0]}:{form}', errs[0][1], wit)
                        return
            watch.append((acc, a_before, desc))
            if other is not None:
                watch.append((other, b_before, desc))
            acc = Operand(res, exp, 'free')
        else:
            if res is not acc.expr:
                col.violation(f'inplace-returns-other-object:{form}', 'in-place operator did not return its left operand', wit)
                return
            acc = Operand(acc.expr, exp, acc.kind, acc.doc)
            if acc.doc is not None:
                # the edited document must still print the expression where it was
                if txt not in common.pr(acc.doc):
                    col.violation(f'inplace-attached-document-text:{form}', 'document does not contain the updated expression text', wit)
                    return
    if idx % 701 == 0:
        col.sample({'expressions': texts, 'chain': [list(map(str, c)) for c in chain], 'final': common.pr(acc.expr)})



def _pinned_item_form(col):
    """`custom.raw_values[i] op= x`: Python stores the element, modified in place, back into its own slot."""
    P = common.parser()
    f = P.parse('2020-01-01 custom "x" 1 + 2 TRUE 4\n', models.File)
    c = f.raw_directives[0]
    col.ev()
    try:
        c.raw_values[0] *= 2
        c.raw_values[-1] -= 1
    except Exception as e:
        col.violation('item-form-inplace-raised', f'custom.raw_values[i] op= number raised {type(e).__name__}: {e}; the document now reads {common.pr(f)!r}',
                      {'text': '2020-01-01 custom "x" 1 + 2 TRUE 4'})
        return
    got = [v for v in c.values]
    if common.pr(f) != '2020-01-01 custom "x" (1 + 2) * 2 TRUE 4 - 1\n' or got[0] != D(6) or got[2] != D(3):
        col.violation('item-form-inplace-result', f'after raw_values[0] *= 2; raw_values[-1] -= 1 the document reads {common.pr(f)!r}, values {got!r}', {})


def _pinned_cost_form(col):
    """`cost.raw_number_per *= 2`, `cost.raw_number_total += 1`: the node, edited in place, is stored back through the cost setters."""
    P = common.parser()
    for text, attr, o, want_text, want in (
            ('2000-01-01 *\n  Assets:A 1 USD {1.5 USD, 2000-01-01}\n', 'raw_number_per', '*', '{1.5 * 2 USD, 2000-01-01}', D('3.0')),
            ('2000-01-01 *\n  Assets:A 1 USD {{3}}\n', 'raw_number_total', '+', '{{3 + 2}}', D(5)),
            ('2000-01-01 *\n  Assets:A 1 USD {1.5 # 3 USD}\n', 'raw_number_total', '-', '{1.5 # 3 - 2 USD}', D(1))):
        f = P.parse(text, models.File)
        c = f.directives[0].postings[0].cost
        col.ev()
        try:
            setattr(c, attr, IOPS[o](getattr(c, attr), 2))
        except Exception as e:
            col.violation('cost-form-inplace-raised', f'cost.{attr} {o}= 2 raised {type(e).__name__}: {e}; the document now reads {common.pr(f)!r}', {'text': text})
            return
        if want_text not in common.pr(f) or getattr(c, attr).value != want:
            col.violation('cost-form-inplace-result', f'after cost.{attr} {o}= 2 the document reads {common.pr(f)!r}', {'text': text})
            return


PINNED = [('item-form in-place operators', _pinned_item_form), ('in-place operators through the cost properties', _pinned_cost_form)]

def derive(counters):
    counters['forms_seen'] = sum(1 for k in counters if k.startswith('form:'))
