"""C01 Parse then print reproduces the input character for character."""
import re
from .. import common, gen, walker
from autobean_refactor import models
from autobean_refactor.models import base as mbase
from autobean_refactor.models.internal.repeated import Repeated

CASES = {'quick': 2400, 'thorough': 60000}
TARGETS = sorted(c.__name__ for c in models.TREE_MODELS.values())
SMALL_BLOCKS = 4      # runner: every 4th case keeps its stores in 2..10-token blocks
GATES = {
    'quick': {'cases_in_small_blocks': 50, 'evaluations': 6000, 'accepted_File': 1200, 'targets_accepted_ge5': 30, 'layout_comment_before_dedent': 30,
              'layout_ws_only_line': 100, 'layout_no_final_newline': 200, 'layout_crlf': 300,
              'inline_targets_respaced_multiline': 500, 'texts_with_very_long_token': 25, 'line_targets_reindented': 1500},
    'thorough': {'evaluations': 150000, 'accepted_File': 30000, 'targets_accepted_ge5': 33},
}
RULE = ('case = one generated document (normal or hostile profile; thorough adds 50..400-directive files) parsed as File with '
        'auto_claim_comments True and False, then the printed text of every sub-model is offered to parse(text, type(sub)) in both modes. '
        'One evaluation = one accepted (text, target, acl) for which print(model)==text, the store concatenation == text and every '
        'sub-model (tokens, trees, repeated nodes) prints exactly text[a:b] for the offsets of its first/last token accumulated over the '
        'store. Non-trivial = the text has >=1 directive or comment and >=1 sub-model slice was compared; distinct = hash(text, target, acl). '
        'Texts on which parse raises are "not accepted" and counted by exception class.')
RULE += (" Also (rounds 9-12): every fresh parse is checked for the span invariants of its tree (each child inside its parent's first..last token, no overlap, every node in the root's store) - what a sub-model spans is decided by its children; inline sub-model texts are re-parsed with blanks, line ends or a comment line around them (the store concatenation must be the input; what print(model) omits there is a known finding); zero-valued numerals and expressions are generated on purpose.")
ASSUMPTIONS = ['acceptance is decided by the real parse(); the generator only proposes texts',
               'slice offsets come from the store order, cross-checked by the concatenation test']

_accepted = {}
KF_OUTSIDE = 'single-target-unowned-comment-outside-model'
KF_BLANKS = 'single-target-blanks-outside-model'


def _classify_print(m, toks, name):
    """Known finding: for a single-model target, block comments that nobody owns (attribution off, or no rule applies) stay in the
    store but outside the returned model, so print(model) omits exactly them and their line breaks."""
    if name == 'File':
        return 'print:File'
    try:
        inside = {id(t) for t in m.token_store.iter(m.first_token, m.last_token)}
    except Exception:
        return f'print:{name}'
    outside = [t for t in toks if id(t) not in inside]
    blank = lambda t: isinstance(t, walker.SPACING + (models.Indent,)) or not t.raw_text
    if outside and all((isinstance(t, models.BlockComment) and not t.claimed) or blank(t) for t in outside):
        # (the same mechanism with and without a comment among what lies outside: two entries of the findings file, told apart here)
        return KF_OUTSIDE if any(isinstance(t, models.BlockComment) for t in outside) else KF_BLANKS
    return f'print:{name}'


def _check(col, text, target, acl, origin):
    P = common.parser()
    try:
        m = P.parse(text, target, auto_claim_comments=acl)
    except Exception as e:
        col.skip(f'rejected[{target.__name__}]: {type(e).__name__}')
        return None
    col.ev()
    name = target.__name__
    col.count('accepted_' + name)
    _accepted[name] = _accepted.get(name, 0) + 1
    wit = {'text': text, 'target': name, 'auto_claim_comments': acl, 'origin': origin}
    store = m.token_store
    toks = list(store)
    concat = ''.join(t.raw_text for t in toks)
    if concat != text:
        col.violation(f'store-concat:{name}', f'concatenation of the store differs from the input for target {name} acl={acl}',
                      dict(wit, got=concat))
        return m
    got = common.pr(m)
    if got != text:
        col.violation(_classify_print(m, toks, name), f'print(parse(text)) != text for target {name} acl={acl}', dict(wit, got=got))
        if _classify_print(m, toks, name) not in (KF_OUTSIDE, KF_BLANKS):
            return m
    # what a sub-model spans is decided by its children, not by what the model says about itself: every child lies inside its
    # parent's first..last token (M3 on the fresh parse)
    col.ev()
    errs = [e for e in walker.check_tree(m) if e[0] in ('child-outside-parent', 'children-overlap', 'first-after-last', 'first-last-exc',
                                                         'first-last-not-in-store', 'leaf-not-in-store', 'wrong-store')]
    if errs:
        col.violation(f'parsed-tree:{errs[0][0]}', f'freshly parsed {name} (acl={acl}): {errs[0][1]}', wit)
        return m
    off = {}
    o = 0
    for t in toks:
        off[id(t)] = o
        o += len(t.raw_text)
    nsub = 0
    for path, sub in walker.walk(m):
        if sub is m:
            continue
        try:
            ft, lt = sub.first_token, sub.last_token
            a, b = off[id(ft)], off[id(lt)] + len(lt.raw_text)
            ptxt = common.pr(sub)
        except Exception as e:
            col.violation(f'submodel-exc:{type(sub).__name__}', f'{path}: {type(e).__name__}: {e}', wit)
            return m
        nsub += 1
        if ptxt != text[a:b]:
            col.violation(f'submodel-slice:{type(sub).__name__}',
                          f'{path} prints {ptxt!r} but spans {text[a:b]!r}', dict(wit, path=path))
            return m
    col.count('submodel_slices', nsub)
    if nsub and text.strip():
        col.nontrivial(text, name, acl)
    return m


def _layout_counters(col, text):
    import re
    if re.search(r'\n[ \t]+;[^\n]*\n(?=\S)', text):
        col.count('layout_comment_before_dedent')
    if re.search(r'(^|\n)[ \t]+\r*\n', text):
        col.count('layout_ws_only_line')
    if text and not text.endswith('\n'):
        col.count('layout_no_final_newline')
    if '\r\n' in text:
        col.count('layout_crlf')
    if re.match(r'(\r*\n)+', text):
        col.count('layout_leading_blank_lines')
    if re.search(r'(^|\n)[ \t]+;', text):
        col.count('layout_indented_comment')


def run_case(col, r, idx):
    prof = gen.HOSTILE if idx % 4 == 3 else gen.DEFAULT
    n = None
    if col.tier == 'thorough' and idx % 200 == 0:
        n = r.choice([50, 150, 400])
    text = gen.document(r, prof, n)
    if idx % 7 == 5:
        # an odd character (byte order mark, zero-width / no-break space, form feed, NUL, line separators, lone CR) at the start, at
        # the end or somewhere in the text: usually rejected; when parse() accepts it, it has to come back out
        ch = r.choice(['\ufeff', '\u200b', '\xa0', '\x0c', '\x0b', '\x00', '\u2028', '\x85', '\r', '\u3000'])
        k = r.choice([0, 0, 0, len(text), r.randint(0, len(text))])
        text = text[:k] + ch + text[k:]
        col.count('texts_with_odd_character')
    if idx % 23 == 11:
        # one very long token (a block comment of several hundred lines, or a string of ten thousand characters): whatever batches
        # or buffers text on the way in or out must keep it in its place
        if r.random() < 0.5:
            big = ''.join(f'; line {k} of a long comment{r.choice(["", " ", "  x"])}\n' for k in range(r.randint(300, 500)))
        else:
            big = '2000-01-01 note Assets:Foo "' + 'long ' * r.randint(1700, 2500) + '"\n'
        k = r.choice([0, len(text)] + [m.end() for m in re.finditer(r'\n(?=\d{4}-)', text)][:3])
        text = text[:k] + big + text[k:]
        col.count('texts_with_very_long_token')
    _layout_counters(col, text)
    col.count('documents')
    first = None
    for acl in (True, False):
        m = _check(col, text, models.File, acl, 'generated')
        if acl and m is not None:
            first = m
    if first is None:
        return
    # sub-model re-parse: the printed text of each sub-model is exactly that model's own span
    seen = set()
    subs = [(p, s) for p, s in walker.walk(first) if isinstance(s, mbase.RawTreeModel) and not isinstance(s, Repeated) and s is not first]
    if n:
        subs = r.sample(subs, min(len(subs), 60))
    for path, sub in subs:
        t = type(sub)
        stext = common.pr(sub)
        if (t, stext) in seen:
            continue
        seen.add((t, stext))
        for acl in (True, False):
            _check(col, stext, t, acl, 'sub-model of a generated file')
        if t.INLINE and r.random() < 0.5:
            # inline targets may continue on following (indented) lines: re-space the sub-model's own text with line breaks, blank
            # lines and indentation between its tokens and let parse() decide
            pieces = []
            for tk in sub.tokens:
                if isinstance(tk, models.Whitespace):
                    pieces.append(r.choice([' ', '\n', '\n   ', '\t', '\r\n  ', '  \n', '\n\n  ', '\n\t']))
                else:
                    pieces.append(tk.raw_text)
            vtext = ''.join(pieces)
            if vtext != stext:
                col.count('inline_targets_respaced_multiline')
                _check(col, vtext, t, r.random() < 0.5, 'sub-model text re-spaced over several lines')
        if t.INLINE and r.random() < 0.35:
            # text the grammar accepts around an inline model (blanks, a line end, a comment line below or above): whatever the
            # returned model spans, the store holds the whole input
            pre = r.choice(['', '', '', ' ', '\n', '; above\n'])
            post = r.choice(['', ' ', '  ', '\n', '\n\n', ' \n', '\n; below', '\n; below\n', '\r\n'])
            if pre or post:
                col.count('inline_targets_with_text_around')
                _check(col, pre + stext + post, t, r.random() < 0.5, 'sub-model text with blanks, line ends or a comment line around it')
        if not t.INLINE and r.random() < 0.3:
            # line-oriented targets with their indentation disturbed (first line unindented, a later line unindented or indented
            # deeper, first line indented): mostly rejected; whatever parse() accepts has to be kept as it is
            lines = stext.split('\n')
            how = r.choice(['first-unindented', 'later-unindented', 'later-deeper', 'first-indented'])
            k = r.randrange(1, len(lines)) if len(lines) > 1 else 0
            if how == 'first-unindented':
                lines[0] = lines[0].lstrip(' \t')
            elif how == 'later-unindented':
                lines[k] = lines[k].lstrip(' \t')
            elif how == 'later-deeper':
                lines[k] = '    ' + lines[k]
            else:
                lines[0] = r.choice(['  ', '\t']) + lines[0]
            vtext = '\n'.join(lines)
            if vtext != stext:
                col.count('line_targets_reindented')
                _check(col, vtext, t, r.random() < 0.5, f'sub-model text with disturbed indentation ({how})')
    if idx % 601 == 0:
        col.sample({'text': text, 'profile': 'hostile' if prof.hostile else 'default', 'sub_models_reparsed': len(seen)})


def _pinned_outside(col):
    _check(col, '; c\n2000-01-01 open Assets:Foo', models.Open, False, 'pinned witness of a known finding')


def _pinned_basic(col):
    for text in ('2000-01-01 *\n  Assets:Foo  1 USD\n  ; c\n', '\n\n  ; x\r\n2000-01-01 open Assets:Foo USD,EUR ; i\r\n    a: 1\n \n'):
        for acl in (True, False):
            _check(col, text, models.File, acl, 'pinned regression case')


PINNED = [('single-target-unowned-comment-outside-model', _pinned_outside), ('basic layouts', _pinned_basic)]


def derive(counters):
    counters['targets_accepted_ge5'] = sum(1 for t in TARGETS if counters.get('accepted_' + t, 0) >= 5)
    counters['targets_never_accepted'] = sum(1 for t in TARGETS if not counters.get('accepted_' + t, 0))
