"""C14 Every block comment has at most one owner, chosen by the documented rules."""
import copy
import collections

from .. import common, gen, ops, walker, attribution, storemodel
from autobean_refactor import models
from autobean_refactor.models import base as mbase
from autobean_refactor.models.internal.repeated import Repeated
from autobean_refactor.models.internal.surrounding_comments import SurroundingCommentsMixin

CASES = {'quick': 6000, 'thorough': 80000}
GATES = {
    'quick': {'evaluations': 25000, 'comments_vs_table': 8000, 'expected:leading': 2500, 'expected:trailing': 1200, 'expected:standalone': 1500,
              'layout:indented-comment': 2000, 'layout:blank-separated': 500, 'layout:mixed-class-adjacent': 300, 'layout:file-start': 500,
              'layout:file-end': 300, 'layout:after-last-meta-no-postings': 40, 'layout:before-dedent': 300, 'layout:nested-posting-meta': 100,
              'history_steps': 6000, 'handover_claims': 1500, 'manual_claims_judged': 2500, 'restore_checks': 800, 'idempotence_checks': 2500, 'parse_vs_later_checks': 2500,
              'parse_vs_later_on_copy': 1000, 'assigned_list_claims': 40, 'restore_api_built': 2000, 'empty_selection_calls': 2000, 'comments_given_to_owners': 1500, 'multi_comment_handovers': 60, 'restore_interleaving:explicit-list': 300, 'restore_interleaving:one-by-one': 50, 'new_neighbour_claims': 40, 'histories_continued_on_copy': 150},
    'thorough': {'evaluations': 500000, 'layout:after-last-meta-no-postings': 800},
}
RULE = ('case = one document from the comment-layout generator (comment runs, matching or mismatching indentation, adjacent above / below / '
        'both, blank- or whitespace-line separated, at file start/end, before a dedent, after the last meta item with and without '
        'postings, inside posting meta) or from the general generator. Evaluations: (rules) each comment\'s actual owner - the unique '
        'path under which the shadow walker reaches it - compared with an attribution table computed from the visible token stream and '
        'the model extents only (leading of the model directly below with the same indentation class and exactly one line break; else '
        'trailing of a model directly above; else standalone entry of a list whose owner spans it; readings the documentation leaves open '
        'are all accepted); (ownership) every comment reachable at most once, claimed flag == reachable, none unowned after default '
        'parsing of a File; (idempotence) a second auto_claim_comments() leaves the ownership map unchanged; (parse vs later) '
        'parse(auto_claim_comments=False) + auto_claim_comments() gives the map of default parsing; (restore) unclaim followed by the '
        'matching claim returns the same comment to the same owner; (histories) 5..15 random claim/unclaim/auto-claim calls incl. '
        'selective and refused ones, ownership re-checked after each. Non-trivial = the document has a comment adjacent to a model; '
        'distinct = hash(text, call-log prefix).')
RULE += (" Also (rounds 9-10): released comments are also claimed back one per call in random order; every route by which a list takes a comment (append, insert, extend, item and slice assignment); where a posting and its last meta item end on the same line and the comment stands exactly at the posting's indentation, only the posting is accepted as owner.")
ASSUMPTIONS = ['"no comment unowned after default parsing" is asserted for File targets only (a single-model target has no standalone slot)',
               'where the documentation is silent (outermost vs innermost model; an entry\'s extent when comments close or open its '
               'indented block) every reading is accepted']


KF_BEYOND = 'released-comment-beyond-model-extent'


def layout_counters(col, text, exp, toks):
    import re
    if re.search(r'(^|\n)[ \t]+;', text):
        col.count('layout:indented-comment')
    if re.search(r'\n[ \t]*\r?\n[ \t]*;', text) or re.search(r';[^\n]*\n[ \t]*\r?\n', text):
        col.count('layout:blank-separated')
    if text.lstrip(' \t').startswith(';'):
        col.count('layout:file-start')
    if text.rstrip('\r\n').rsplit('\n', 1)[-1].lstrip(' \t').startswith(';'):
        col.count('layout:file-end')
    if any(e[2] for e in exp.values()):
        col.count('layout:mixed-class-adjacent')
    if re.search(r'\n[ \t]+[a-z][A-Za-z0-9_-]+:[^\n]*\n[ \t]+;[^\n]*(\n[ \t]+;[^\n]*)*\n?(?=\S|$)', text):
        col.count('layout:after-last-meta-no-postings')
    if re.search(r'\n[ \t]+;[^\n]*\n(?=\S)', text):
        col.count('layout:before-dedent')
    if re.search(r'\n([ \t]+)\S[^\n]*\n\1[ \t]+;', text):
        col.count('layout:nested-posting-meta')


def ownership_errors(root, require_all_owned):
    own = attribution.owners(root)
    for t in root.token_store:
        if isinstance(t, models.BlockComment):
            n = len(own.get(id(t), ()))
            if n > 1:
                return ('two-owners', f'{t!r} is reachable through {own[id(t)]}')
            if (n == 1) != bool(t.claimed):
                return ('claimed-flag', f'{t!r}: claimed={t.claimed} but it is reachable through {n} owner(s)')
            if require_all_owned and n == 0:
                return ('unowned-after-default-parse', f'{t!r} has no owner after default parsing')
    return None


def rules_check(col, root, text, wit, file_target=True):
    exp, toks = attribution.expected(root)
    own = attribution.owners(root)
    spans = None
    for tk in toks:
        if not isinstance(tk, models.BlockComment):
            continue
        a = own.get(id(tk), [])
        if len(a) != 1:
            continue           # ownership check reports that
        kind, parent = a[0]
        e = exp[id(tk)]
        col.ev()
        col.count('comments_vs_table')
        col.count('expected:' + e[0].split('-')[0])
        if not file_target and e[0] == 'standalone':
            continue
        if not attribution.agrees(e, kind, parent):
            col.violation(f'rule:expected-{e[0]}:got-{kind}' + (':mixed-indentation' if e[2] else ''),
                          f'{tk!r} should be {e[0]}' + (f' of {sorted(e[1])}' if e[1] else '') + f' ({e[2] or "documented order"}); '
                          f'it is {kind} of {parent}', wit)
            return False
        if kind == 'standalone':
            # the list that holds it must belong to a model whose extent contains the comment
            holder = parent.rsplit('.', 1)[0] if '.' in parent else parent
            models_by_path = dict(walker.walk(root)) if spans is None else spans
            spans = models_by_path
            h = models_by_path.get(holder)
            if h is not None and isinstance(h, mbase.RawTreeModel):
                try:
                    inside = any(t is tk for t in h.tokens)
                except Exception:
                    inside = True
                if not inside:
                    col.violation('rule:standalone-outside-holder', f'{tk!r} is an entry of {parent} but lies outside the extent of {holder}', wit)
                    return False
    return exp, toks



def _pinned_beyond(col):
    """Pinned witness of the known finding released-comment-beyond-model-extent."""
    P = common.parser()
    f = P.parse('2000-01-01 *\n  Assets:A 1 USD\n    bb: 0\n', models.File)
    w = f.directives[0].postings[0].raw_meta_with_comments
    w.append(models.BlockComment.from_value('tail', indent='    '))
    before = attribution.ownership_map(f)
    un = w.unclaim_interleaving_comments()
    col.ev()
    try:
        w.claim_interleaving_comments(un)
        ok = attribution.ownership_map(f) == before
    except ValueError:
        ok = False
    if not ok:
        col.violation(KF_BEYOND, 'posting.raw_meta_with_comments: append(comment); unclaim_interleaving_comments(); claim_interleaving_comments(<the same>) '
                                 'does not give the comment back to the list', {'text': '2000-01-01 *\n  Assets:A 1 USD\n    bb: 0\n'})


def run_case(col, r, idx):
    lf = r.choice([2, 3, 5]) if idx % 4 == 0 else 1000
    storemodel.set_load_factor(lf)
    try:
        P = common.parser()
        if idx % 3:
            text = gen.layout_document(r, crlf=(idx % 7 == 0))
        else:
            text = gen.document(r, gen.Profile(comments=1.6, crlf=(idx % 2 == 0)))
        try:
            f_on = P.parse(text, models.File)
            f_off = P.parse(text, models.File, auto_claim_comments=False)
        except Exception:
            col.skip('document rejected by parse')
            return
        if not any(isinstance(t, models.BlockComment) for t in f_on.token_store):
            col.skip('document without block comments')
            return
        wit = {'text': text, 'lf': lf}
        # ownership after default parsing
        v = ownership_errors(f_on, True)
        col.ev()
        if v:
            col.violation(f'ownership:{v[0]}:default-parse', v[1], wit)
            return
        got = rules_check(col, f_on, text, wit)
        if got is False:
            return
        exp, toks = got
        layout_counters(col, text, exp, toks)
        if any(e[0] != 'standalone' or e[2] for e in exp.values()):
            col.nontrivial(text)
        base_map = attribution.ownership_map(f_on)
        # parse vs later
        col.ev()
        col.count('parse_vs_later_checks')
        v0 = ownership_errors(f_off, False)
        if v0 or any(attribution.ownership_map(f_off)):
            col.violation('ownership:comments-owned-with-attribution-off', 'parse(auto_claim_comments=False) left a comment owned or flagged', wit)
            return
        f_copy = copy.deepcopy(f_off) if idx % 2 == 0 else None
        f_off.auto_claim_comments()
        later = attribution.ownership_map(f_off)
        if later != base_map:
            k = next(i for i, (a, b) in enumerate(zip(later, base_map)) if a != b)
            col.violation('parse-vs-later', f'comment #{k}: auto_claim_comments() after parse gives {later[k]}, default parsing gives {base_map[k]}', wit)
            return
        if f_copy is not None:
            # ... and the same on a copy of the unattributed document: flags travel with the copy, later attribution is the same
            col.ev()
            col.count('parse_vs_later_on_copy')
            v0 = ownership_errors(f_copy, False)
            if v0 or any(attribution.ownership_map(f_copy)):
                col.violation('ownership:copy-of-unattributed-document', 'a deep copy of a document parsed with auto_claim_comments=False has owned or flagged comments'
                              + (f': {v0[1]}' if v0 else ''), wit)
                return
            f_copy.auto_claim_comments()
            if attribution.ownership_map(f_copy) != base_map:
                col.violation('parse-vs-later:copy', 'auto_claim_comments() on a deep copy of the unattributed document differs from default parsing', wit)
                return
        # idempotence (whole file, then a random sub-model)
        col.ev()
        col.count('idempotence_checks')
        f_on.auto_claim_comments()
        if attribution.ownership_map(f_on) != base_map:
            col.violation('not-idempotent:file', 'a second auto_claim_comments() on the file changed the ownership map', wit)
            return
        nodes = list(walker.walk(f_on))
        p, m = r.choice(nodes)
        m.auto_claim_comments()
        if attribution.ownership_map(f_on) != base_map:
            col.violation('not-idempotent:sub-model', f'auto_claim_comments() on {p} of a default-parsed file changed the ownership map', wit)
            return
        # restore: unclaim then the matching claim
        sm = [(p, m) for p, m in nodes if isinstance(m, SurroundingCommentsMixin)]
        r.shuffle(sm)
        for p, m in sm[:4]:
            for side in ('leading', 'trailing'):
                if vars(m).get(f'_{side}_comment') is None:
                    continue
                col.ev()
                col.count('restore_checks')
                c = getattr(m, f'unclaim_{side}_comment')()
                if c is None or c.claimed:
                    col.violation(f'restore:unclaim-{side}', f'unclaim_{side}_comment() of {p} returned {c!r} (claimed={getattr(c, "claimed", None)})', wit)
                    return
                c2 = getattr(m, f'claim_{side}_comment')()
                if c2 is not c or attribution.ownership_map(f_on) != base_map:
                    col.violation(f'restore:claim-{side}', f'unclaim_{side}_comment() then claim_{side}_comment() on {p} did not restore the attribution', wit)
                    return
        wr = [(p + '.' + a, getattr(m, a)) for p, m in walker.tree_models(f_on) for a, d, k in ops.catalog(type(m)) if k == 'raw_list_comments']
        r.shuffle(wr)
        for p, w in wr[:2]:
            if not any(isinstance(x, models.BlockComment) for x in w):
                continue
            col.ev()
            col.count('restore_checks')
            un = w.unclaim_interleaving_comments()
            if any(c.claimed for c in un) or any(isinstance(x, models.BlockComment) for x in w):
                col.violation('restore:unclaim-interleaving', f'{p}.unclaim_interleaving_comments() left claimed comments behind', wit)
                return
            explicit = r.random() < 0.5      # hand back exactly what unclaim returned, or let the list look for itself
            one_by_one = explicit and len(un) >= 2 and r.random() < 0.5
            try:
                if one_by_one:
                    # ... or one comment per call, in any order: the others are unowned comments the scan has to step over
                    order = list(un)
                    r.shuffle(order)
                    for c_ in order:
                        w.claim_interleaving_comments([c_])
                    col.count('restore_interleaving:one-by-one')
                else:
                    w.claim_interleaving_comments(un) if explicit else w.claim_interleaving_comments()
            except ValueError as e:
                col.violation('restore:claim-interleaving-raised' + (':one-by-one' if one_by_one else ':explicit-list' if explicit else ''),
                              f'{p}: claim_interleaving_comments({"<one of the released comments>" if one_by_one else "<what unclaim returned>" if explicit else ""}) right after unclaim_interleaving_comments() raised {e}', wit)
                return
            col.count('restore_interleaving' + (':explicit-list' if explicit else ''))
            if attribution.ownership_map(f_on) != base_map:
                col.violation('restore:claim-interleaving' + (':explicit-list' if explicit else ''),
                              f'{p}: unclaim_interleaving_comments() then claim_interleaving_comments() did not restore the attribution', wit)
                return
        # an empty selection selects nothing: releasing or claiming [] leaves every attribution as it is
        for p, w in wr[:3]:
            col.ev()
            col.count('empty_selection_calls')
            try:
                got = (w.unclaim_interleaving_comments([]), w.claim_interleaving_comments(()))
            except ValueError as e:
                col.violation('empty-selection-raised', f'{p}: un/claim_interleaving_comments([]) raised {e}', wit)
                return
            if got[0] or attribution.ownership_map(f_on) != base_map:      # (claim returns every comment the list holds afterwards)
                col.violation('empty-selection-changed-attribution', f'{p}: unclaim_interleaving_comments([]) / claim_interleaving_comments(()) returned '
                              f'{got!r} or changed the ownership map', wit)
                return
        # the same restore rule on a standalone comment that was put into a list through the API (at the start, in the middle, at the
        # end): release it, claim it back
        fb = P.parse(text, models.File)
        wb = [(p, m, getattr(m, a)) for p, m in walker.tree_models(fb) for a, d, k in ops.catalog(type(m)) if k == 'raw_list_comments']
        if wb:
            p, m, w = r.choice(wb)
            first = next((x for x in w if hasattr(x, 'indent')), None)
            ind = first.indent if first is not None else ('' if isinstance(m, models.File) else '    ')
            c = models.BlockComment.from_value('put here', indent=ind)
            pos = r.choice([0, len(w), len(w) // 2])
            try:
                w.insert(pos, c)
                before = attribution.ownership_map(fb)
                w.unclaim_interleaving_comments([c])
                st = fb.token_store
                outside = st.get_index(c) > st.get_index(m.last_token) or st.get_index(c) < st.get_index(m.first_token)
                explicit = r.random() < 0.5
                try:
                    w.claim_interleaving_comments([c]) if explicit else w.claim_interleaving_comments()
                    raised = None
                except ValueError as e:
                    raised = e
                col.ev()
                col.count('restore_api_built')
                if raised is not None or attribution.ownership_map(fb) != before:
                    where = 'start' if pos == 0 else 'end' if pos == len(w) - 1 or pos >= len(w) else 'middle'
                    mech = KF_BEYOND if outside else f'restore:api-built-comment:{where}'
                    col.violation(mech, f'{p}: a comment inserted at the {where} of the list, released with unclaim_interleaving_comments([c]) and '
                                  f'claimed again ({"explicit list" if explicit else "no argument"}) ' +
                                  (f'raised {raised}' if raised is not None else 'did not get its owner back') +
                                  ('; once released it lies outside the extent of the model the list belongs to' if outside else ''),
                                  dict(wit, path=p, position=pos))
                    if not outside:
                        return
            except (ValueError, IndexError):
                pass
        # histories of claim / unclaim / auto calls
        root = f_off if idx % 2 else P.parse(text, models.File, auto_claim_comments=False)
        mg = ops.MiscGenerator(r)
        log = []
        handover = {}
        pp = ops.pingpong_ops(root, r, r.randint(6, 14)) if idx % 3 == 2 else []
        if not pp and idx % 7 == 5:
            pp = ops.assign_then_claim_ops(root, r)       # a list assigned as a whole, then asked to claim
            if pp:
                col.count('assigned_list_claims')
        if not pp and idx % 7 == 3:
            pp = ops.multi_comment_ops(root, r)       # two or three separate comment tokens in one gap, handed from list to list
            if pp:
                col.count('multi_comment_handovers')
        if not pp and idx % 7 == 1:
            pp = ops.new_neighbour_claims_ops(root, r)     # a released comment claimed by a model that was not there when it was first claimed
            if pp:
                col.count('new_neighbour_claims')
        pp.reverse()
        swap_at = r.randint(1, 8) if not pp and idx % 4 == 1 else -1
        text_edited = False
        for s in range(max(r.randint(5, 15), len(pp))):
            if s == swap_at:
                root = copy.deepcopy(root)          # the history continues on a copy taken mid-way
                log.append('<continue on deepcopy>')
                col.count('histories_continued_on_copy')
            op = pp.pop() if pp else (mg.give_comment_op(root) if r.random() < 0.12 else mg.claim_op(root))
            if op is not None and op.kind.startswith('claim:give'):
                col.count('comments_given_to_owners')
            if op is None:
                continue
            res = 'refused'
            mc = getattr(op, 'manual_claim', None)
            want = None
            if mc is not None:
                cur = vars(mc[0]).get(f'_{mc[1]}_comment')
                want = ('current', cur) if cur is not None else ('adjacent', attribution.adjacent_comment(root, mc[0], mc[1]))
            try:
                res = op.apply()
                log.append(op.desc)
            except ValueError as e:
                log.append(op.desc + f' -> refused ({e})')
            if op.kind in ('claim:multi', 'claim:give-to-list', 'claim:give-to-model'):
                text_edited = True       # comments were inserted: the adjacency table of the manual-claim oracle is built for parsed layouts
            if mc is not None and want[1] != 'unknown' and not text_edited:
                # a manual claim takes the comment on the adjacent line (same indentation class, no blank line) - wherever list
                # placeholders happen to sit - or reports that it is already claimed; it never takes anything else
                col.ev()
                col.count('manual_claims_judged')
                exp_c = want[1]
                if res == 'refused':
                    ok = want[0] == 'adjacent' and exp_c is not None and exp_c.claimed and not mc[2]
                elif want[0] == 'current':
                    ok = res is exp_c
                elif exp_c is None:
                    ok = res is None
                elif exp_c.claimed and res is None:
                    ok = mc[2] or vars(mc[0]).get(f'_{mc[1]}_comment') is None     # claimed by someone else, ignored on request
                    ok = ok and mc[2]
                else:
                    ok = res is exp_c
                if not ok:
                    col.violation(f'manual-claim:{mc[1]}', f'{op.desc}: the adjacent comment is {exp_c!r}' +
                                  (f' (claimed={exp_c.claimed})' if exp_c is not None else '') + f', the call returned {res!r}', dict(wit, calls=log))
                    return
            rr = getattr(op, 'round_robin', None)
            if rr is not None:
                # hand-over: once every possible owner has let the comment go, the same claim call has to succeed as it did one round
                # earlier (unclaim followed by claim restores the attribution, whoever held the comment in between)
                rnd, owner = rr
                got = tuple(id(c) for c in res) if isinstance(res, tuple) else (id(res) if isinstance(res, models.BlockComment) else res)
                if rnd >= 1:
                    col.count('handover_claims')
                if rnd == 1:
                    handover[owner] = got
                elif rnd == 2 and owner in handover and handover[owner] != got:
                    col.violation('restore:hand-over', f'{op.desc}: after every owner had released the comment, this claim returned '
                                  f'{"nothing" if got in (None, ()) else "something else"} although the same call one round earlier got the comment',
                                  dict(wit, calls=log))
                    return
            col.ev()
            col.count('history_steps')
            col.nontrivial(text, tuple(log))
            v = ownership_errors(root, False)
            if v:
                col.violation(f'ownership:{v[0]}:after:{op.kind}' + (':refused' if 'refused' in log[-1] else ''), f'after {log[-1]}: {v[1]}',
                              dict(wit, calls=log))
                return
            if op.kind in ('claim:assign', 'claim:multi') and 'refused' not in log[-1]:
                # an owner holds its comments inside its own extent (a list must not reach beyond the model it belongs to)
                errs = [e for e in walker.check_tree(root) if e[0] in ('child-outside-parent', 'children-overlap', 'first-after-last')]
                if errs:
                    col.violation(f'owner-extent:{errs[0][0]}:after:{op.kind}', f'after {log[-1]}: {errs[0][1]}', dict(wit, calls=log))
                    return
        # after any history, a full auto-claim leaves nothing unowned and obeys the leading/trailing rules for what it attributes
        root.auto_claim_comments()
        col.ev()
        v = ownership_errors(root, True)
        if v:
            col.violation(f'ownership:{v[0]}:auto-after-history', f'auto_claim_comments() after {len(log)} manual calls: {v[1]}', dict(wit, calls=log))
            return
        if idx % 211 == 0:
            col.sample({'text': text, 'ownership': [list(map(list, o)) for o in base_map], 'history': log})
    finally:
        storemodel.set_load_factor(1000)


PINNED = [(KF_BEYOND, _pinned_beyond)]
