"""C07 The token store behaves exactly like a plain ordered sequence (monitor M1: store vs list)."""
from .. import common, storemodel, storehist
from autobean_refactor import token_store as ts

CASES = {'quick': 4000, 'thorough': 100000}
GATES = {
    'quick': {'live_tokens_offered': 3000, 'caller_list_mutations': 3000, 'empty_range_splices': 2000, 'evaluations': 50000, 'ops_multi_block_removed': 1500, 'ops_removed_ge_lf': 3000, 'histories': 3000},
    'thorough': {'evaluations': 5000000, 'ops_multi_block_removed': 100000, 'histories': 90000},
}
RULE = ('case = one random history (40-200 ops; thorough up to 300) on a raw TokenStore with load factor 2..12 (thorough: ..50) '
        'and initial size 0..7*LF+1, mirrored on a Python list; one evaluation = one M1 comparison (iteration identity, len, '
        'first/last, prev/next of every token, membership handle, sampled sub-range iteration, removed tokens detached) after a '
        'store mutator. One op in thirteen offers the store a token it already holds outside the replaced range (the token just after the '
        'range, the reference itself, a random one; alone or with a new token): it must be refused with ValueError, nothing applied. '
        'Non-trivial = the mutator changed the sequence; distinct = hash(load factor, initial size, op-log prefix). '
        'Sub-counts: removed range spanning >=2 blocks, removed range >= LF tokens, block split/merge events seen by the '
        'instrumented _split_block/_merge_blocks.')
ASSUMPTIONS = ['load factor patched through the module constants exactly as the repository test does',
               'block split/merge counters read internal method names; they are diagnostics, not verdicts']

_EVENTS = {}


def setup(col):
    # monitor hooks on the block maintenance functions: pure counters (diagnostic reach evidence)
    for name in ('_split_block', '_merge_blocks', '_update_block'):
        fn = getattr(ts.TokenStore, name, None)
        if fn is None:
            continue

        def make(fn, name):
            def wrapped(self, *a, **k):
                col.count('event' + name)
                return fn(self, *a, **k)
            return wrapped
        setattr(ts.TokenStore, name, make(fn, name))


def run_case(col, r, idx):
    lfs = storehist.LFS_QUICK if col.tier == 'quick' else storehist.LFS_THOROUGH
    lf = r.choice(lfs)
    nsteps = r.choice([40, 80, 200]) if col.tier == 'quick' else r.choice([40, 100, 200, 300])
    h = storehist.History(r, lf, nsteps)
    col.count('histories')
    # the list handed to from_tokens stays the caller's: what the caller does to it afterwards is no business of the store
    src = [storehist.mk(r) for _ in range(r.choice([1, 2, lf - 1, lf, lf + 1, 3 * lf]))]
    keep = list(src)
    st = ts.TokenStore.from_tokens(src)
    how = r.choice(['clear', 'append', 'reverse', 'pop'])
    getattr(src, how)(*([storehist.mk(r)] if how == 'append' else []))
    col.ev()
    col.count('caller_list_mutations')
    v = storemodel.compare_sequence(st, keep)
    if v:
        col.violation(f'from_tokens-shares-callers-list:{v[0]}', f'after the caller did .{how}() on the list it had passed to from_tokens ({len(keep)} tokens, '
                      f'lf={lf}): {v[1]}', {'lf': lf, 'n': len(keep)})
        return
    # a store cannot be built from a batch that holds one token twice
    dup = storehist.mk(r)
    batch = [dup] + [storehist.mk(r) for _ in range(r.randint(0, 2 * lf))] + [dup]
    try:
        ts.TokenStore.from_tokens(batch)
        col.ev()
        col.violation('from_tokens:token-twice-accepted', 'from_tokens accepted a batch holding one token object twice', {'lf': lf, 'batch': len(batch)})
        return
    except ValueError:
        col.count('from_tokens_duplicates_refused')
        if any(t.store_handle is not None for t in batch):
            col.violation('from_tokens:refused-but-attached', 'from_tokens refused a batch but left handles on its tokens', {'lf': lf})
            return
    col.count(f'lf_{lf}')
    v = storemodel.compare_sequence(h.store, h.shadow, h.pairs())
    col.ev()
    if v:
        col.violation('from_tokens:' + v[0], f'fresh store (lf={lf}, n={len(h.shadow)}): {v[1]}',
                      {'lf': lf, 'init': h.init_sizes})
        return
    for s in range(nsteps):
        try:
            info = h.step()
        except Exception as e:
            last = h.log[-1] if h.log else None
            col.violation(f'store-method-raised:{last[0] if last else "?"}',
                          f'{type(e).__name__}: {e} from a call that is valid for a list (lf={lf})',
                          {'lf': lf, 'init': h.init_sizes, 'log': h.log[-6:], 'steps': len(h.log)})
            return
        if info is None:
            continue
        op = info['op']
        col.count('ops_' + op)
        multi = info['blocks'] >= 2
        if multi:
            col.count('ops_multi_block_removed')
        if len(info['removed']) >= lf:
            col.count('ops_removed_ge_lf')
        tag = f'{op}{"(multi-block)" if multi else ""}'
        if info.get('empty_range'):
            col.count('empty_range_splices')
        if op == 'live':
            col.count('live_tokens_offered')
            if info.get('live_accepted'):
                col.violation(f'live-token-accepted:{info["live"]}', f'{info["live"]}: the store accepted a token that is already in the store outside '
                              f'the replaced range, a range that ends before it starts, or a reference token of another store (or applied half of a batch before refusing)',
                              {'lf': lf, 'init': h.init_sizes, 'log': h.log[-6:]})
                return
        if info.get('still_attached') or info.get('not_empty'):
            col.violation('remove-all:' + ('still-attached' if info.get('still_attached') else 'not-empty'),
                          f'after removing every token (lf={lf}) the store is not empty or tokens keep a handle',
                          {'lf': lf, 'init': h.init_sizes, 'log': h.log[-6:]})
            return
        for t in info['removed']:
            if t.store_handle is not None and not any(t is x for x in h.shadow):
                col.violation('removed-not-detached:' + tag, 'a removed token still has a store handle',
                              {'lf': lf, 'init': h.init_sizes, 'log': h.log[-6:]})
                return
        v = storemodel.compare_sequence(h.store, h.shadow, h.pairs())
        col.ev()
        if info['changed']:
            col.nontrivial(lf, h.init_sizes, tuple(map(repr, h.log)))
        if v:
            col.violation(f'{v[0]}:{tag}', f'after {op} (lf={lf}, step {len(h.log)}): {v[1]}',
                          {'lf': lf, 'init': h.init_sizes, 'log': h.log[-6:], 'steps': len(h.log), 'blocks_spanned': info['blocks']})
            return
    if idx % 997 == 0:
        col.sample({'lf': lf, 'initial_tokens': h.init_sizes, 'ops': [repr(x) for x in h.log[:12]], 'final_len': len(h.shadow)})


def _pinned_production_lf(col):
    """Production load factor (1000) with a parsed 400-directive file edited through the model API: the multi-block deletions
    that exposed the stale block indexes. The store must stay self-consistent (iteration vs next/prev/index/len/first/last) and
    equal the expected identity sequence."""
    import random
    from .. import gen
    from autobean_refactor import models
    storemodel.set_load_factor(1000)
    r = random.Random(7)
    P = common.parser()
    text = ''
    while text.count('\n') < 900:
        t = gen.directive(r, gen.SPACED_LF)
        try:
            P.parse(t, models.File)      # each directive is accepted on its own, so is their concatenation
            text += t
        except Exception:
            continue
    f = P.parse(text, models.File)
    store = f.token_store
    nblocks = len(getattr(store, '_blocks', [None] * 9))
    col.count('pinned_production_tokens', len(store))
    for lo, hi in ((0, 150), (10, 200), (5, 6), (0, 40)):
        w = f.raw_directives_with_comments
        if len(w) <= hi:
            continue
        before = list(store)
        gone = set()
        for x in w[lo:hi]:
            gone |= {id(t) for t in x.tokens}
        try:
            del w[lo:hi]
        except Exception as e:
            col.ev()
            col.violation('production-lf:model-edit-raised', f'del directives[{lo}:{hi}] on a {len(before)}-token file raised {type(e).__name__}: {e}', {'lf': 1000})
            return
        exp = [t for t in before if id(t) not in gone]
        # separators next to the removed range may go too: compare the survivors' order, then self-consistency
        cur = list(store)
        col.ev()
        ids = {id(t) for t in cur}
        if [id(t) for t in exp if id(t) in ids] != [id(t) for t in cur if id(t) in {id(x) for x in exp}]:
            col.violation('production-lf:iter', f'after del directives[{lo}:{hi}] the surviving tokens are not in their old order', {'lf': 1000})
            return
        v = storemodel.compare_sequence(store, cur, [(0, len(cur) - 1), (len(cur) // 3, 2 * len(cur) // 3)]) or storemodel.compare_positions(store, cur)
        if v:
            col.violation(f'production-lf:{v[0]}', f'after del directives[{lo}:{hi}] ({nblocks} blocks): {v[1]}', {'lf': 1000})
            return


PINNED = [('production load factor, multi-block model edits', _pinned_production_lf)]


def _suite_under_monitor(col):
    from .. import suiteworkload
    suiteworkload.run(col, ('M1',), 'store-vs-list')


THOROUGH_EXTRA = [('the repository test suite under the universal monitors', _suite_under_monitor)]
