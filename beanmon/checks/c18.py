"""C18 Children created from values are indented by the documented rule."""
import copy
import datetime
import decimal

from .. import common, walker, builder
from autobean_refactor import models

D = decimal.Decimal
CASES = {'quick': 8000, 'thorough': 100000}
SMALL_BLOCKS = 4      # runner: every 4th case keeps its stores in 2..10-token blocks
GATES = {
    'quick': {'empty_indent_by': 40, 'cases_in_small_blocks': 50, 'evaluations': 6000, 'created_meta_items': 1800, 'created_comments': 1200, 'raw_items_inserted': 600, 'from_value_meta': 400, 'empty_indent_by_on_an_entry': 40, 'posting_indent_node_replaced': 100, 'insertions_into_a_deep_copy': 600, 'constructed_with_indent_by': 400,
              'entry_classes_seen': 13, 'layout:none': 300, 'layout:uniform': 300, 'layout:tabs': 100, 'layout:with-comments': 200,
              'layout:non-uniform': 100, 'meta_view_read_before_indent_by': 1500, 'reconfigured_between_edits': 1000,
              'meta_cleared_before_insert': 200, 'existing_comment_updates': 150, 'existing_comment_reindented_through_raw_text': 40},
    'thorough': {'evaluations': 120000, 'entry_classes_seen': 13},
}
RULE = ('case = one entry of one of the 12 entry classes (or a posting inside a transaction) parsed from text with a chosen meta layout '
        '(none; uniform 1/2/4/8 blanks; tabs; interleaved comments; non-uniform) and a chosen indent_by (1, 2, 8 blanks, tab, default). '
        'Routes: mapping assignment meta[k]=v for a new key, setdefault, update; append/insert of raw MetaItem/BlockComment carrying their '
        'own indent; leading_comment/trailing_comment string setters on postings and meta items; from_value(meta=...) constructors. One '
        'evaluation = one created item or comment checked: a created meta item takes the indentation its sibling items share (any '
        'sibling\'s when they differ) and otherwise parent indent + indent_by (postings) / indent_by (entries); a created comment takes its '
        'owner\'s indent; a raw inserted item keeps its indent verbatim; every pre-existing Indent token and comment indent is unchanged. '
        'Non-trivial = a new line was created; distinct = hash(text, path, route, indent_by).')
RULE += (" Also (rounds 8-12): every class that takes indent_by, both constructors, explicit indent_by; insertions into deep copies; the posting's indent node replaced (raw_indent); entries with an empty indent_by.")
ASSUMPTIONS = ['with non-uniform siblings any sibling\'s indent is accepted (docs say "last", the code uses the first)']

HEADS = {
    'Balance': '2000-01-01 balance Assets:Foo 1 USD', 'Close': '2000-01-01 close Assets:Foo', 'Commodity': '2000-01-01 commodity USD',
    'Custom': '2000-01-01 custom "t" 1 "x"', 'Document': '2000-01-01 document Assets:Foo "f.pdf"', 'Event': '2000-01-01 event "a" "b"',
    'Note': '2000-01-01 note Assets:Foo "n"', 'Open': '2000-01-01 open Assets:Foo USD', 'Pad': '2000-01-01 pad Assets:Foo Assets:Bar',
    'Price': '2000-01-01 price USD 1 EUR', 'Query': '2000-01-01 query "q" "select"', 'Transaction': '2000-01-01 * "p" "n"',
}
INDENT_BYS = [None, ' ', '  ', '\t', '        ']


def make_doc(r):
    cname = r.choice(list(HEADS) + ['Posting', 'Posting', 'Posting'])
    layout = r.choice(['none', 'none', 'uniform', 'uniform', 'tabs', 'with-comments', 'non-uniform'])
    base = r.choice(['  ', '    ', '\t', ' ']) if cname == 'Posting' else ''
    unit = {'none': '  ', 'uniform': r.choice([' ', '  ', '    ', '        ']), 'tabs': '\t', 'with-comments': r.choice(['  ', '    ']),
            'non-uniform': '  '}[layout]
    lines = []
    n = 0 if layout == 'none' else r.randint(1, 3)
    for i in range(n):
        ind = base + unit + (' ' * i if layout == 'non-uniform' else '')
        if layout == 'with-comments' and r.random() < 0.6:
            # a comment above an item, sometimes indented differently from the item it belongs to
            lines.append(ind + r.choice(['', '', '  ', '\t']) + '; c' + str(i))
        lines.append(ind + f'k{i}: "v{i}"' + r.choice(['', ' ; i']))
    if layout == 'with-comments' and lines and r.random() < 0.5:
        lines.append(base + unit + '; tail')
    if cname == 'Posting':
        head = ['2000-01-01 * "p" "n"', base + 'Assets:Foo  1 USD']
        tail = [base + 'Assets:Bar'] if r.random() < 0.6 else []
        text = '\n'.join(head + lines + tail) + '\n'
    else:
        text = '\n'.join([HEADS[cname]] + lines) + '\n'
        if cname == 'Transaction' and r.random() < 0.5:
            text += (unit if n else '  ') + 'Assets:Foo  1 USD\n'
    return cname, layout, text, base


def indents_snapshot(store):
    return {id(t): (t.raw_text if isinstance(t, models.Indent) else t.indent) for t in store
            if isinstance(t, (models.Indent, models.BlockComment))}


def meta_value(r):
    return r.choice(['text', datetime.date(2000, 1, 2), D(3), True, None, models.Account.from_value('Assets:X'),
                     models.Amount.from_value(D(1), 'USD')])


def run_case(col, r, idx):
    P = common.parser()
    cname, layout, text, base = make_doc(r)
    try:
        f = P.parse(text, models.File)
    except Exception as e:
        col.skip(f'template rejected by parse ({type(e).__name__})')
        return
    d = f.directives[0]
    owner = d.postings[0] if cname == 'Posting' else d
    col.count('cls:' + cname)
    col.count('layout:' + layout)
    if r.random() < 0.5:
        # a user who inspects the meta first (this creates the cached mapping view) and configures indent_by afterwards
        len(owner.meta)
        col.count('meta_view_read_before_indent_by')
    iby = r.choice(INDENT_BYS)
    if cname == 'Posting' and r.random() < 0.08:
        iby = ''            # a posting may keep its meta flush with itself (the entry's children are all just "indented")
        col.count('empty_indent_by')
    elif cname != 'Posting' and layout == 'none' and r.random() < 0.15:
        # the empty string is an indent_by string like any other as far as the rule goes (the text it gives does not parse back as
        # meta, which is not this property's business): a sibling indented by '' is a sibling, and later items copy it
        iby = ''
        col.count('empty_indent_by_on_an_entry')
    if iby is not None:
        owner.indent_by = iby
    eff_by = owner.indent_by
    if r.random() < 0.2:
        # the insertions go into a deep copy of the configured document (of the entry alone, for entries): the rule is the copy's too
        col.count('insertions_into_a_deep_copy')
        if cname != 'Posting' and r.random() < 0.5:
            d = copy.deepcopy(d)
            f = d
            owner = d
        else:
            f = copy.deepcopy(f)
            d = f.directives[0]
            owner = d.postings[0] if cname == 'Posting' else d
        if owner.indent_by != eff_by:
            col.violation('copy-indent_by-lost', f'the deep copy of a {cname} with indent_by {eff_by!r} has indent_by {owner.indent_by!r}',
                          {'text': text, 'class': cname})
            return
    store = f.token_store
    path = '$.directives[0]' + ('.postings[0]' if cname == 'Posting' else '')
    for step in range(r.randint(1, 3)):
        route = r.choice(['map-new', 'map-new', 'setdefault', 'update', 'raw-append', 'raw-insert', 'comment-setter', 'comment-setter'])
        if r.random() < 0.25:
            # reconfigure between edits: the rule speaks of the parent's indent_by / indentation at the time of the insertion
            owner.indent_by = eff_by = r.choice([' ', '  ', '\t', '    ', '      '])
            if cname == 'Posting' and r.random() < 0.5:
                nind = r.choice(['  ', '   ', '\t', '     '])
                if r.random() < 0.5:
                    owner.indent = nind
                else:
                    owner.raw_indent = models.Indent.from_value(nind)       # a new node in the slot, not a new text in the old node
                    col.count('posting_indent_node_replaced')
            col.count('reconfigured_between_edits')
        before = indents_snapshot(store)
        sib = [it.indent for it in owner.raw_meta]
        parent_indent = owner.indent if cname == 'Posting' else ''
        expected = set(sib) if sib else {parent_indent + eff_by}
        wit = {'text': text, 'class': cname, 'layout': layout, 'indent_by': eff_by, 'route': route, 'now': common.pr(f)}
        key = f'n{step}'
        if sib and r.random() < 0.15:
            owner.meta.clear()
            sib = []
            expected = {parent_indent + eff_by}
            before = indents_snapshot(store)
            col.count('meta_cleared_before_insert')
        try:
            if route in ('map-new', 'setdefault', 'update'):
                v = meta_value(r)
                if route == 'map-new':
                    owner.meta[key] = v
                elif route == 'setdefault':
                    owner.meta.setdefault(key, v)
                else:
                    owner.meta.update({key: v})
                item = owner.raw_meta[key]
                col.ev()
                col.count('created_meta_items')
                col.nontrivial(text, path, route, eff_by, step)
                if item.indent not in expected:
                    why = 'siblings share' if sib else 'parent indent + indent_by is'
                    col.violation(f'created-item-indent:{route}:{"siblings" if sib else "no-siblings"}:{"posting" if cname == "Posting" else "entry"}',
                                  f'{cname}.meta[{key!r}] created with indent {item.indent!r}; {why} {sorted(expected)!r}', dict(wit, after=common.pr(f)))
                    return
            elif route in ('raw-append', 'raw-insert'):
                own = r.choice(['   ', '\t\t', '      ', ' '])
                if r.random() < 0.3:
                    raw = models.BlockComment.from_value('raw comment', indent=own)
                    w = owner.raw_meta_with_comments
                else:
                    raw = models.MetaItem.from_value(key, meta_value(r), indent=own)
                    w = r.choice([owner.raw_meta_with_comments, owner.raw_meta])
                if route == 'raw-append':
                    w.append(raw)
                else:
                    w.insert(r.randint(0, len(w)), raw)
                col.ev()
                col.count('raw_items_inserted')
                col.nontrivial(text, path, route, own, step)
                if raw.indent != own:
                    col.violation(f'raw-item-indent-changed:{route}', f'inserted raw {type(raw).__name__} had indent {own!r}, now {raw.indent!r}',
                                  dict(wit, after=common.pr(f)))
                    return
            else:
                cands = []
                if cname == 'Posting':
                    cands.append(('posting', owner))
                cands += [('meta-item', it) for it in owner.raw_meta]
                cands = [(k, m) for k, m in cands]
                if not cands:
                    continue
                kind, m = r.choice(cands)
                side = r.choice(['leading_comment', 'trailing_comment'])
                if getattr(m, side) is not None:
                    # an existing comment gets a new text: its line keeps its own indentation
                    old = getattr(m, 'raw_' + side)
                    old_indent = old.indent
                    if r.random() < 0.4:
                        # ... also when the comment has just been moved to another indentation by rewriting its raw text
                        old_indent = r.choice(['\t', '  ', '      ', '\t\t'])
                        old.raw_text = '\n'.join(old_indent + ln.lstrip(' \t') for ln in old.raw_text.split('\n'))
                        col.count('existing_comment_reindented_through_raw_text')
                    val = r.choice(['', 'new text', 'two\nlines', ''])
                    setattr(m, side, val)
                    cm = getattr(m, 'raw_' + side)
                    col.ev()
                    col.count('existing_comment_updates')
                    col.nontrivial(text, path, 'comment-update', kind, side, val, step)
                    if cm is not None and any(not ln.startswith(old_indent + ';') for ln in cm.raw_text.split('\n')):
                        col.violation(f'existing-comment-line-indent-changed:{kind}:{side}', f'{side} := {val!r} on a {kind} whose comment lines were indented '
                                      f'{old_indent!r}: the comment now reads {cm.raw_text!r}', dict(wit, after=common.pr(f)))
                        return
                    if cm is None or cm.indent != old_indent:
                        col.violation(f'existing-comment-indent-changed:{kind}:{side}', f'{side} := {val!r} on a {kind} whose comment was indented '
                                      f'{old_indent!r}: the comment line is now indented {getattr(cm, "indent", None)!r}', dict(wit, after=common.pr(f)))
                        return
                    continue
                val = r.choice(['c', 'two\nlines', ''])
                setattr(m, side, val)
                cm = getattr(m, 'raw_' + side)
                col.ev()
                col.count('created_comments')
                col.nontrivial(text, path, route, kind, side, step)
                if cm.indent != m.indent:
                    col.violation(f'created-comment-indent:{kind}:{side}', f'{side} of a {kind} with indent {m.indent!r} was created with indent {cm.indent!r}',
                                  dict(wit, after=common.pr(f)))
                    return
                lines = cm.raw_text.split('\n')
                if any(not ln.startswith(m.indent + ';') for ln in lines):
                    col.violation(f'created-comment-lines:{kind}:{side}', f'not every line of the created comment starts with the owner\'s indent: {cm.raw_text!r}',
                                  dict(wit, after=common.pr(f)))
                    return
        except Exception as e:
            col.skip(f'route raised {type(e).__name__} (other properties decide)')
            return
        after = indents_snapshot(store)
        for tid, ind in before.items():
            if tid in after and after[tid] != ind:
                col.violation(f'existing-indent-changed:{route}', f'an existing line\'s indentation changed {ind!r} -> {after[tid]!r}',
                              dict(wit, after=common.pr(f)))
                return
    # constructors: from_value(meta=...)
    if idx % 5 == 0:
        iby2 = r.choice(['  ', '\t', '    ', '        '])
        pind = r.choice(['  ', '    ', '\t'])
        meta = {'aa': 'x', 'bb': D(1)}
        if r.random() < 0.5:
            m = models.Posting.from_value('Assets:Foo', D(1), 'USD', indent=pind, indent_by=iby2, meta=meta)
            exp = pind + iby2
            what = 'Posting'
        else:
            dt = datetime.date(2000, 1, 1)
            cn, pos = r.choice([('Open', (dt, 'Assets:Foo')), ('Close', (dt, 'Assets:Foo')), ('Note', (dt, 'Assets:Foo', 'n')),
                                ('Transaction', (dt, 'p', 'n', [])), ('Balance', (dt, 'Assets:Foo', D(1), None, 'USD')),
                                ('Commodity', (dt, 'USD')), ('Event', (dt, 'a', 'b')), ('Pad', (dt, 'Assets:Foo', 'Assets:Bar'))])
            m = getattr(models, cn).from_value(*pos, meta=meta, indent_by=iby2)
            exp = iby2
            what = cn
        col.ev()
        col.count('from_value_meta')
        col.nontrivial('from_value', what, iby2, pind)
        got = [it.indent for it in m.raw_meta]
        if any(g != exp for g in got):
            col.violation(f'from_value-meta-indent:{"posting" if what == "Posting" else "entry"}', f'{what}.from_value(meta=..., indent_by={iby2!r}) '
                          f'created items with indents {got!r}, expected {exp!r}', {'printed': common.pr(m)})
            return
    # constructors with an explicit indent_by, every class that takes one, both constructors: the configured string must be the one
    # the next insertion from a value uses (meta emptied first, so that no sibling decides)
    if idx % 5 in (1, 3):
        fn = 'from_value' if idx % 5 == 1 else 'from_children'
        tree = {c.__name__: c for c in models.TREE_MODELS.values()}
        names = [n for n in (builder.CLASSES_FROM_VALUE if fn == 'from_value' else builder.CLASSES_FROM_CHILDREN)
                 if 'indent_by' in builder.optional_params(tree[n], fn)]
        cn = r.choice(names)
        for _ in range(30):
            try:
                m, args = (builder.build_from_value if fn == 'from_value' else builder.build_from_children)(tree[cn], r, None)
            except LookupError:
                return
            if 'indent_by' in args:
                break
        else:
            return
        iby2 = args['indent_by']
        col.ev()
        col.count('constructed_with_indent_by')
        col.count('ctor:' + fn + ':' + cn)
        wit = {'class': cn, 'constructor': fn, 'indent_by': iby2, 'arguments': sorted(args), 'printed': common.pr(m)}
        if m.indent_by != iby2:
            col.violation(f'constructor-indent_by-lost:{fn}', f'{cn}.{fn}(indent_by={iby2!r}).indent_by == {m.indent_by!r}', wit)
            return
        own = m.indent if cn == 'Posting' else ''
        m.meta.clear()
        m.meta['zz'] = 'v'
        col.nontrivial('ctor', cn, fn, iby2, own)
        got = m.raw_meta[0].indent
        if got != own + iby2:
            col.violation(f'constructor-indent_by-unused:{fn}', f'{cn}.{fn}(indent_by={iby2!r}), then meta[\'zz\'] = \'v\' on the empty meta: '
                          f'the new line is indented {got!r}, expected {own + iby2!r}', dict(wit, after=common.pr(m)))
            return
    if idx % 401 == 0:
        col.sample({'text': text, 'class': cname, 'layout': layout, 'indent_by': eff_by, 'result': common.pr(f)})


def derive(counters):
    counters['entry_classes_seen'] = sum(1 for k in counters if k.startswith('cls:'))
