"""C17 Spacing accessors read and write exactly the whitespace between neighbours."""
from .. import common, gen, walker, storemodel
from autobean_refactor import models
from autobean_refactor.models.internal.repeated import Repeated

CASES = {'quick': 1500, 'thorough': 40000}
GATES = {
    'quick': {'evaluations': 30000, 'getter_checks': 25000, 'setter_checks': 3000, 'chained_setter_checks': 3000, 'setter_nonempty_readback': 1500,
              'model_next_to_zero_width': 2000, 'classes_checked': 25, 'setter_crlf': 150,
              'runs_split_by_zero_width_token': 100, 'post_write_neighbour_sweeps': 150,
              'line_end_only_chain_steps': 500, 'entry_gap_checks': 1000, 'entry_gaps_with_blank_only_lines': 80, 'post_write_sweeps_after_filling_an_empty_gap': 50,
              'getter_checks_after_emptied_indent': 2000, 'setter_checks_after_emptied_indent': 100},
    'thorough': {'evaluations': 800000, 'classes_checked': 30},
}
SPACINGS = ['', ' ', '\n', '\r\n', '  \t', '\n\n', ' \n\t \n', '\t', '    ', '\r\n\r\n', ' \r\n ', '\n ']
RULE = ('case = one accepted generated document (both attribution modes; stores in 2..10-token blocks for a third of the cases). '
        'Every character is labelled by the *type* of its token: S for Whitespace/Newline tokens, X for everything else (indentation '
        'and the blanks inside comments are X, as docs/special/spacing.md says). Getter evaluation: for every model and token with '
        'spacing accessors except the root, spacing_before/after == the maximal run of S characters adjacent to its first/last '
        'character (so two neighbours necessarily agree). Setter evaluation (4..8 per document with a fresh parse each, or - every other document - 12..30 in a row on the same '
        'tree, biased towards collapsing runs near the start so that store blocks shrink and merge): after assigning one '
        'of 12 spacing strings the printed text == text with exactly that run replaced, and a non-empty string reads back. '
        'After a setter that replaces pure line ends by pure line ends (no blanks on either side; the printed text lexes into the same non-empty tokens the edited store holds), all models of the edited tree must read the same spacing as the models of a fresh parse of the printed text (neighbour agreement after the write). Non-trivial = the run is non-empty or the assigned string is; distinct = hash(text, path, side, string).')
RULE += (' Also (rounds 7-10): line-end-only assignment chains on one tree with sweeps against a fresh parse also where the gap had been empty; a text-level oracle for the gap between neighbouring entries of a file (where the text between them is blanks and line ends only, both read exactly that text).')
RULE += (" Also (round 13): on a fifth of the documents one Indent of a fresh tree is set to '' (a token an edit made zero-width): every accessor must still read the run adjacent in the text, and one write right after the emptied token must replace exactly that run.")
ASSUMPTIONS = ['spacing strings are drawn from [ \\t]+ and \\r?\\n groups, the domain the statement names']


def labels(store):
    lab, pos, off = [], {}, 0
    texts = []
    for tk in store:
        pos[id(tk)] = off
        off += len(tk.raw_text)
        lab.append(('S' if isinstance(tk, walker.SPACING) else 'X') * len(tk.raw_text))
        texts.append(tk.raw_text)
    return ''.join(lab), pos, ''.join(texts)


def targets(root):
    return [(p, m) for p, m in walker.walk(root) if m is not root and hasattr(type(m), 'spacing_before') and not isinstance(m, Repeated)]


def runs(lab, pos, m, store=None):
    """Offsets (i, a, b, j): text[i:a] is the spacing run before the model, text[b:j] the run after it. A run is the maximal
    sequence of Whitespace/Newline characters adjacent to the model; zero-width marks directly at the model's boundary are
    transparent, but a zero-width structural token (end-of-line mark, list placeholder, dedent mark) *inside* a stretch of blanks
    ends the run: the blanks beyond it lie inside the neighbouring model (e.g. trailing blanks before a line end), and only with
    this reading do two neighbours see the same run from their two sides."""
    a = pos[id(m.first_token)]
    b = pos[id(m.last_token)] + len(m.last_token.raw_text)
    store = store if store is not None else m.token_store

    def extent(tok, succ):
        n = 0
        while tok is not None and not tok.raw_text:
            tok = succ(tok)
        while tok is not None and isinstance(tok, walker.SPACING):
            n += len(tok.raw_text)
            tok = succ(tok)
        return n
    return a - extent(store.get_prev(m.first_token), store.get_prev), a, b, b + extent(store.get_next(m.last_token), store.get_next)


def run_case(col, r, idx):
    lf = r.choice([2, 3, 5, 10]) if idx % 3 == 0 else 1000
    storemodel.set_load_factor(lf)
    P = common.parser()
    try:
        acl = idx % 4 != 1
        text, f = gen.accepted_document(r, P, gen.DEFAULT, auto_claim_comments=acl)
        if f is None:
            col.skip('document rejected by parse')
            return
        lab, pos, full = labels(f.token_store)
        ms = targets(f)
        store = f.token_store
        for path, m in ms:
            i, a, b, j = runs(lab, pos, m)
            eb, ea = full[i:a], full[b:j]
            cname = type(m).__name__
            if (i > 0 and lab[i - 1] == 'S') or (j < len(lab) and lab[j] == 'S'):
                col.count('runs_split_by_zero_width_token')      # blanks continue beyond a zero-width structural token
            col.count('cls:' + cname)
            prev, nxt = store.get_prev(m.first_token), store.get_next(m.last_token)
            if (prev is not None and not prev.raw_text) or (nxt is not None and not nxt.raw_text):
                col.count('model_next_to_zero_width')
            for side, exp in (('before', eb), ('after', ea)):
                try:
                    got = getattr(m, 'spacing_' + side)
                except Exception as e:
                    col.violation(f'getter-raised:{side}', f'{path}.spacing_{side}: {type(e).__name__}: {e}', {'text': text, 'path': path})
                    return
                col.ev()
                col.count('getter_checks')
                if exp or got:
                    col.nontrivial(text, path, side, 'get')
                if got != exp:
                    col.violation(f'getter:{side}', f'{cname} at {path}: spacing_{side} == {got!r} but the adjacent run is {exp!r}',
                                  {'text': text, 'path': path, 'acl': acl, 'context': full[max(0, a - 12):b + 12][:200]})
                    return
        # between two neighbouring entries of the file the text decides, not the lexer: where everything between the end of one entry
        # and the start of the next is blanks and line ends, that text *is* the spacing both of them see (a blank-only line is
        # spacing whatever its line end looks like)
        ents = list(f.raw_directives_with_comments)
        for e1, e2 in zip(ents, ents[1:]):
            try:
                b0 = pos[id(e1.last_token)] + len(e1.last_token.raw_text)
                a0 = pos[id(e2.first_token)]
            except KeyError:
                continue
            gap = full[b0:a0]
            if gap.strip(' \t\r\n') or isinstance(e1, models.IgnoredLine):
                continue        # (an ignored line's token ends with the CR of a CRLF line end: the lexer's business, see DESIGN)
            col.ev()
            col.count('entry_gap_checks')
            if ' ' in gap or '\t' in gap:
                col.count('entry_gaps_with_blank_only_lines')
            got1, got2 = e1.spacing_after, e2.spacing_before
            if got1 != gap or got2 != gap:
                col.violation('entry-gap', f'between entry {type(e1).__name__} and entry {type(e2).__name__} the text is {gap!r}; '
                              f'spacing_after reads {got1!r}, spacing_before reads {got2!r}', {'text': text, 'acl': acl})
                return
        # a token that an edit made zero-width (round 13): an Indent whose value is set to '' stays in the store with no text. The
        # run adjacent to a model is a matter of the text, so every accessor must read through it as through the zero-width marks,
        # and a write next to it must replace the one run that is there. (Fresh tree; one Indent emptied; sweep, then one write.)
        if idx % 5 == 2:
            f3 = P.parse(text, models.File, auto_claim_comments=acl)
            inds = [t for t in f3.token_store if isinstance(t, models.Indent) and t.raw_text]
            if inds:
                ind = r.choice(inds)
                ind.value = ''
                col.count('emptied_indent_cases')
                lab3, pos3, full3 = labels(f3.token_store)
                ms3 = targets(f3)
                near = []
                for path, m in ms3:
                    i, a, b, j = runs(lab3, pos3, m)
                    if m.first_token is ind or f3.token_store.get_prev(m.first_token) is ind:
                        near.append((path, m))
                    for side, exp in (('before', full3[i:a]), ('after', full3[b:j])):
                        got = getattr(m, 'spacing_' + side)
                        col.ev()
                        col.count('getter_checks_after_emptied_indent')
                        if got != exp:
                            col.violation(f'getter-next-to-emptied-token:{side}', f'{type(m).__name__} at {path}: after one Indent was set to \'\' '
                                          f'spacing_{side} == {got!r} but the adjacent run in the text is {exp!r}',
                                          {'text': text, 'path': path, 'acl': acl, 'text_after_the_edit': full3})
                            return
                if near:
                    path, m = r.choice(near)
                    s3 = r.choice(SPACINGS)
                    i, a, b, j = runs(lab3, pos3, m)
                    exp = full3[:i] + s3 + full3[a:]
                    wit = {'text': text, 'path': path, 'assigned': s3, 'acl': acl, 'text_after_emptying_the_indent': full3}
                    try:
                        m.spacing_before = s3
                    except Exception as e:
                        col.violation('setter-raised-next-to-emptied-token', f'{type(e).__name__}: {e}', wit)
                        return
                    col.ev()
                    col.count('setter_checks_after_emptied_indent')
                    got = common.pr(f3)
                    if got != exp:
                        col.violation('setter-next-to-emptied-token', f'{type(m).__name__}.spacing_before = {s3!r} right after an emptied Indent: '
                                      f'printed text is not the text with that run replaced', dict(wit, got=got, expected=exp))
                        return
                    if s3 and m.spacing_before != s3:
                        col.violation('setter-readback-next-to-emptied-token', f'assigned {s3!r}, reads back {m.spacing_before!r}', wit)
                        return
        if not ms:
            return
        # half of the documents take all their assignments one after the other on the same tree (runs collapse, blocks of the store
        # shrink and merge); the others get a fresh parse per assignment
        chained = idx % 2 == 0
        nl_chain = idx % 8 == 3     # all assignments on one tree, line ends only, on runs that hold line ends only or nothing (clear, then restore)
        chained = chained or nl_chain
        ntrials = (12 if chained else 4) if col.tier == 'quick' else (30 if chained else 8)
        chain = []
        f = P.parse(text, models.File, auto_claim_comments=acl)
        for trial in range(ntrials):
            if not chained:
                f = P.parse(text, models.File, auto_claim_comments=acl)
            ms = targets(f)
            path, m = r.choice(ms[:15]) if chained and r.random() < 0.5 else r.choice(ms)
            side = r.choice(['before', 'after'])
            s = r.choice(SPACINGS + (['', '', ' '] if chained else []))
            lab, pos, full = labels(f.token_store)
            i, a, b, j = runs(lab, pos, m)
            if nl_chain:
                s = r.choice(['', '', '\n', '\n', '\n\n', '\r\n'])
                for _ in range(40):
                    cur = full[i:a] if side == 'before' else full[b:j]
                    # not through a zero-width model (an end-of-line mark): its two sides are the same place in the text and only
                    # the token-level oracle above says which of them a run belongs to
                    if not cur.replace('\r\n', '').replace('\n', '') and (cur or s) and (trial % 2 == 0 or not cur) and (m.first_token.raw_text or m.last_token.raw_text):
                        break
                    path, m = r.choice(ms)
                    side = r.choice(['before', 'after'])
                    i, a, b, j = runs(lab, pos, m)
                else:
                    continue
                col.count('line_end_only_chain_steps')
            exp = full[:i] + s + full[a:] if side == 'before' else full[:b] + s + full[j:]
            old = full[i:a] if side == 'before' else full[b:j]
            wit = {'text': text, 'path': path, 'side': side, 'assigned': s, 'old_run': old, 'acl': acl, 'lf': lf,
                   'earlier_assignments_on_this_tree': list(chain), 'text_before_this_assignment': full}
            if chained:
                chain.append((path, side, s))
                col.count('chained_setter_checks')
            try:
                setattr(m, 'spacing_' + side, s)
            except Exception as e:
                col.violation(f'setter-raised:{side}', f'{type(e).__name__}: {e}', wit)
                return
            col.ev()
            col.count('setter_checks')
            if '\r' in s:
                col.count('setter_crlf')
            if s or old:
                col.nontrivial(text, path, side, s, len(chain))
            got = common.pr(f)
            if got != exp:
                kind = 'non-blank-text-changed' if [c for c in got if c not in ' \t\r\n'] != [c for c in exp if c not in ' \t\r\n'] \
                    else 'length' if len(got) != len(exp) else 'wrong-place'
                col.violation(f'setter:{kind}:{side}', f'{type(m).__name__}.spacing_{side} = {s!r}: printed text is not the input with '
                              f'that run replaced', dict(wit, got=got, expected=exp))
                return
            if s:
                col.count('setter_nonempty_readback')
                rb = getattr(m, 'spacing_' + side)
                if rb != s:
                    col.violation(f'setter-readback:{side}', f'assigned {s!r}, reads back {rb!r}', wit)
                    return
            # neighbours after the write: where the new run is pure line ends replacing pure line ends (nothing a lexer would place
            # differently), every model of the edited tree must see the spacing a fresh parse of the printed text sees.
            nl_only = lambda t: bool(t) and not t.replace('\r\n', '').replace('\n', '')
            lo, hi = (i, a) if side == 'before' else (b, j)
            fresh = not chained or trial == 0 or nl_chain    # earlier assignments on this tree may have put blanks where a lexer places them differently
            visible = bool(m.first_token.raw_text or m.last_token.raw_text)      # a zero-width model's two sides are one place in the text
            if fresh and nl_only(s) and (nl_only(old) or not old and visible) and not (lo and full[lo - 1].isspace()) and not (hi < len(full) and full[hi].isspace()):
                try:
                    f2 = P.parse(got, models.File, auto_claim_comments=acl)
                except Exception:
                    f2 = None
                same_lexemes = f2 is not None and [t.raw_text for t in f2.token_store if t.raw_text] == [t.raw_text for t in f.token_store if t.raw_text]
                if same_lexemes and walker.digest(f2, comments='keep') == walker.digest(f, comments='keep'):
                    t1, t2 = targets(f), targets(f2)
                    if [p for p, _ in t1] == [p for p, _ in t2]:
                        col.count('post_write_neighbour_sweeps')
                        if not old:
                            col.count('post_write_sweeps_after_filling_an_empty_gap')
                        for (p1, m1), (_, m2) in zip(t1, t2):
                            for sd in ('spacing_before', 'spacing_after'):
                                col.ev()
                                g1, g2 = getattr(m1, sd), getattr(m2, sd)
                                if g1 != g2:
                                    col.violation(f'neighbour-after-write:{side}', f'after {type(m).__name__}.spacing_{side} = {s!r} at {path}, '
                                                  f'{type(m1).__name__} at {p1} reads {sd} == {g1!r}; in a fresh parse of the printed text it is {g2!r}',
                                                  dict(wit, got=got))
                                    return
        if idx % 307 == 0:
            col.sample({'text': text, 'models_checked': len(ms), 'last_setter': {'path': path, 'side': side, 'assigned': s}})
    finally:
        storemodel.set_load_factor(1000)


def derive(counters):
    counters['classes_checked'] = sum(1 for k in counters if k.startswith('cls:'))
