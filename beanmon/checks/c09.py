"""C09 A value written through a property is the value read back, siblings unaffected; dependent groups follow the record model."""
import datetime
import decimal
import itertools

from .. import common, gen, ops, walker, values
from autobean_refactor import models
from autobean_refactor.models import base as mbase
from autobean_refactor.models.internal import properties as props, value_properties as vprops

D = decimal.Decimal
FORMS = ['{}', '{{}}', '{1}', '{{1}}', '{USD}', '{{USD}}', '{1 USD}', '{{1 USD}}', '{1 # 2 USD}', '{# 2 USD}', '{1 # USD}', '{{1 # 2 USD}}',
         '{1, USD}', '{USD, 1}', '{{USD, 1}}', '{{1, USD}}', '{ 1+1 USD }', '{{# 2 USD}}']
EXTRA = ['', ', 2000-01-01', ', "lbl"', ', *', ', 2000-01-01, "lbl", *', '"lbl", *, 2000-01-01, ']
# number and currency as separate components with other components between them (each class of component at most once)
BETWEEN = ['{1, 2000-01-01, USD}', '{USD, "lbl", *, 1}', '{{2000-01-01, 1, "lbl", USD}}', '{{USD, *, 1}}', '{1, "lbl", USD, 2000-01-01}', '{ *, USD, 2000-01-01, 1+1 }']
# components written directly against their neighbours (no blanks)
# (no comma directly followed by a digit: `2,2000-01-01` lexes as one number - the input-abutting-tokens finding of C06)
ABUT = ['{1# 2 USD}', '{1 #2 USD}', '{1#2 USD}', '{{1#2 USD, 2000-01-01,"lbl",*}}', '{USD,1,*}', '{#2 USD}', '{1# USD}']
COMBOS = [(f, e) for f in FORMS for e in EXTRA] + [(f, '') for f in BETWEEN + ABUT]
N_ENUM = len(COMBOS) * 3
TXN_FORMS = ['*', '* "n"', '* "p" "n"', '! "" ""', '* "p" ""', 'txn "n" #t']
CASES = {'quick': N_ENUM + len(TXN_FORMS) + 1500, 'thorough': N_ENUM + len(TXN_FORMS) + 60000}
SMALL_BLOCKS = 4      # runner: every 4th case keeps its stores in 2..10-token blocks
GATES = {
    'quick': {'cases_in_small_blocks': 50, 'evaluations': 60000, 'cost_paths': 25000, 'cost_forms_accepted': 95, 'documented_rejections_observed': 1500,
              'txn_paths': 1500, 'generic_assignments': 3000, 'generic_long_decimals': 8, 'generic_props_seen': 60, 'reparse_checks': 20000},
    'thorough': {'evaluations': 300000, 'cost_paths': 40000, 'generic_props_seen': 70},
}
RULE = ('three workloads. (1) cost group, exhaustive: from each of 18 concrete forms x 6 date/label/merge suffixes every assignment path '
        'of length 1, 2 (12 steps: each of number_per/number_total/currency/date/label/merge := None|value) and 3 (group properties only) '
        'is applied to a freshly parsed posting; after every step the observed (number_per, number_total, currency, date, label, merge) '
        'must equal the record-of-optionals model incl. the documented rejections (state unchanged when rejected), and must survive '
        'print + re-parse; thorough adds random paths of 4..8 steps. (2) payee/narration: all assignment paths of length <=4 from 6 '
        'transaction headers against the two-field record with the payee-implies-narration rule. (3) generic: on generated documents, '
        'a random value property of a random model is assigned an in-domain value (or None): it must read back, every other value '
        'property of that model must read as before (documented groups aside), and both must survive print + re-parse of the file. '
        'One evaluation = one getter-after-setter comparison; non-trivial = the value differs from the previous one, or the record '
        'changed / a rejection occurred; distinct = hash(initial form, assignment path) resp. hash(text, path, property, value).')
ASSUMPTIONS = ['values are compared as Decimal/date/str/bool, raw nodes by structural digest',
               'in the generic workload the re-parsed model is located as the k-th model of its class in pre-order']

VALS = {'number_per': [None, D(7)], 'number_total': [None, D(9)], 'currency': [None, 'CAD'], 'date': [None, datetime.date(2001, 2, 3)],
        'label': [None, 'L2'], 'merge': [False, True]}
IDX = {'number_per': 0, 'number_total': 1, 'currency': 2, 'date': 3, 'label': 4, 'merge': 5}
STEPS = [(p, v) for p in VALS for v in VALS[p]]
GROUP_STEPS = [(p, v) for p, v in STEPS if p in ('number_per', 'number_total', 'currency')]

_corpus = None


def setup(col):
    global _corpus
    _corpus = ops.Corpus(col.seed, 50)


def read_cost(c):
    return (c.number_per, c.number_total, c.currency, c.date, c.label, c.merge)


def model_step(st, p, v):
    st = list(st)
    per, tot, cur = st[0], st[1], st[2]
    if p == 'number_per' and v is not None and tot is not None and cur is None:
        return None
    if p == 'number_total' and v is not None and per is not None and cur is None:
        return None
    if p == 'currency' and v is None and per is not None and tot is not None:
        return None
    st[IDX[p]] = v
    return tuple(st)


def cost_text(form, extra):
    body = form.rstrip('}')
    close = form[len(body):]
    inner = body.lstrip('{')
    open_ = body[:len(body) - len(inner)]
    if extra.endswith(', '):       # suffix written as a prefix: components in another order
        content = (extra + inner) if inner.strip() else extra.rstrip(', ')
    else:
        content = (inner + extra) if inner.strip() else extra.lstrip(', ')
    return open_ + content + close


def run_cost_path(col, base, init, path, origin):
    P = common.parser()
    po = P.parse(base, models.Posting)
    c = po.cost
    st = init
    col.count('cost_paths')
    for i, (p, v) in enumerate(path):
        exp = model_step(st, p, v)
        wit = {'posting': base, 'path': [f'{a} := {b!r}' for a, b in path[:i + 1]], 'model_state_before': repr(st), 'origin': origin}
        try:
            setattr(c, p, v)
            raised = None
        except ValueError as e:
            raised = e
        except Exception as e:
            col.ev()
            col.violation(f'cost:setter-raised:{p}', f'{type(e).__name__}: {e}', wit)
            return
        col.ev()
        got = read_cost(c)
        wit['observed'] = repr(got)
        wit['printed'] = common.pr(po)
        if exp is None:
            col.count('documented_rejections_observed')
            col.nontrivial(base, tuple(map(repr, path[:i + 1])))
            if raised is None:
                col.violation(f'cost:missing-rejection:{p}', f'{p} := {v!r} in state {st} must be rejected, it was accepted', wit)
                return
            if got != st:
                col.violation(f'cost:state-changed-by-rejected-call:{p}', f'rejected {p} := {v!r} changed the group {st} -> {got}', wit)
                return
            continue
        if raised is not None:
            col.violation(f'cost:spurious-rejection:{p}', f'{p} := {v!r} in state {st} raised {raised}', wit)
            return
        if exp != st:
            col.nontrivial(base, tuple(map(repr, path[:i + 1])))
        st = exp
        if got != st:
            bad = [k for k in IDX if got[IDX[k]] != st[IDX[k]]]
            col.violation(f'cost:record-mismatch:set-{p}:wrong-{"+".join(bad)}',
                          f'after {p} := {v!r} the group reads {got}, the record model says {st}', wit)
            return
        col.count('reparse_checks')
        try:
            g = P.parse(common.pr(po), models.Posting)
            if g.cost is None or read_cost(g.cost) != st:
                col.violation(f'cost:reparse-mismatch:set-{p}', f'printed {common.pr(po)!r} re-parses to '
                              f'{read_cost(g.cost) if g.cost is not None else None}, expected {st}', wit)
                return
        except Exception as e:
            col.violation(f'cost:reparse-fails:set-{p}', f'printed {common.pr(po)!r} does not parse: {type(e).__name__}', wit)
            return
        errs = walker.check_tree(po)
        if errs:
            col.violation(f'cost:tree:{errs[0][0]}', errs[0][1], wit)
            return


def cost_enum_case(col, idx):
    (form, extra), L = COMBOS[idx // 3], idx % 3 + 1
    base = f'    Assets:Foo 1 USD {cost_text(form, extra)}'
    try:
        po = common.parser().parse(base, models.Posting)
    except Exception as e:
        col.skip(f'cost form rejected by parse: {type(e).__name__}')
        return
    if L == 1:
        col.count('cost_forms_accepted')
    init = read_cost(po.cost)
    steps = STEPS if L < 3 else GROUP_STEPS
    for path in itertools.product(steps, repeat=L):
        run_cost_path(col, base, init, path, 'exhaustive short path')
    if L == 1:
        col.sample({'posting': base, 'initial_group': repr(init), 'paths_of_length_1': len(steps)})


def cost_random_case(col, r, idx):
    form, extra = r.choice(COMBOS)
    base = f'    Assets:Foo 1 USD {cost_text(form, extra)}'
    try:
        po = common.parser().parse(base, models.Posting)
    except Exception:
        col.skip('cost form rejected by parse')
        return
    path = tuple(r.choice(STEPS if r.random() < 0.4 else GROUP_STEPS) for _ in range(r.randint(4, 8)))
    run_cost_path(col, base, read_cost(po.cost), path, 'random long path')


TXN_VALS = [None, 'x', '', 'a "q" b']


def txn_model(st, p, v):
    payee, narr = st
    if p == 'payee':
        payee = v
        if v is not None and narr is None:
            narr = ''
    else:
        narr = v
        if v is None and payee is not None:
            narr = ''
    return (payee, narr)


def txn_case(col, k):
    head = TXN_FORMS[k]
    base = f'2000-01-01 {head}\n    Assets:Foo  1 USD\n'
    P = common.parser()
    try:
        t0 = P.parse(base, models.File).directives[0]
    except Exception:
        col.skip('transaction header rejected')
        return
    init = (t0.payee, t0.narration)
    steps = [(p, v) for p in ('payee', 'narration') for v in TXN_VALS]
    for L in (1, 2, 3, 4):
        for path in itertools.product(steps, repeat=L):
            if L == 4 and any(v == 'a "q" b' for _, v in path):
                continue
            f = P.parse(base, models.File)
            t = f.directives[0]
            st = init
            col.count('txn_paths')
            for i, (p, v) in enumerate(path):
                wit = {'text': base, 'path': [f'{a} := {b!r}' for a, b in path[:i + 1]]}
                try:
                    setattr(t, p, v)
                except Exception as e:
                    col.ev()
                    col.violation(f'txn:setter-raised:{p}', f'{type(e).__name__}: {e}', wit)
                    break
                col.ev()
                new = txn_model(st, p, v)
                if new != st:
                    col.nontrivial(base, tuple(map(repr, path[:i + 1])))
                st = new
                got = (t.payee, t.narration)
                if got != st:
                    col.violation(f'txn:record-mismatch:set-{p}', f'after {p} := {v!r}: (payee, narration) reads {got}, record model says {st}', wit)
                    break
                col.count('reparse_checks')
                try:
                    g = P.parse(common.pr(f), models.File).directives[0]
                    if (g.payee, g.narration) != st:
                        col.violation(f'txn:reparse-mismatch:set-{p}', f'printed {common.pr(f)!r} re-parses to {(g.payee, g.narration)}, expected {st}', wit)
                        break
                except Exception as e:
                    col.violation(f'txn:reparse-fails:set-{p}', f'{type(e).__name__}', wit)
                    break


GENERIC_KINDS = ('required_value', 'optional_value')
GROUPS = {models.CostSpec: {'number_per', 'number_total', 'currency', 'date', 'label', 'merge'},
          models.Transaction: {'payee', 'narration'}}


def value_props(m):
    return [(a, d, k) for a, d, k in ops.catalog(type(m)) if k in GENERIC_KINDS]


def norm(v):
    if isinstance(v, mbase.RawModel):
        return ('raw', walker.digest(v, comments='keep'))
    return v


def read_all(m):
    out = {}
    for a, d, k in value_props(m):
        try:
            out[a] = norm(getattr(m, a))
        except (decimal.DecimalException, ZeroDivisionError):
            out[a] = 'ARITH'
    return out


def locate(root, cls, ordinal):
    k = 0
    for p, x in walker.tree_models(root):
        if type(x) is cls:
            if k == ordinal:
                return x
            k += 1
    return None


def generic_case(col, r, idx):
    P = common.parser()
    text, f = gen.accepted_document(r, P, gen.SPACED_LF if idx % 2 else gen.SPACED, n=r.randint(1, 5))
    if f is None:
        col.skip('document rejected by parse')
        return
    g = ops.Generator(_corpus, r, syntax_only=True, kinds=GENERIC_KINDS)
    for trial in range(4):
        nodes = [(p, m) for p, m in walker.tree_models(f) if value_props(m) and not isinstance(m, models.CostSpec)]
        if not nodes:
            return
        path, m = r.choice(nodes)
        vp = value_props(m)
        nums = [x for x in vp if 'number' in x[0] or x[0] in ('tolerance', 'value')]
        a, d, k = r.choice(nums) if nums and r.random() < 0.4 else r.choice(vp)      # (comment properties would dominate otherwise)
        if a == 'indent' or a in GROUPS.get(type(m), ()):
            continue        # the dependent groups have their own record-model workloads
        try:
            op = g.value_op(path, m, a, d, k)
            if op is not None and idx % 8 == 0 and trial == 0 and isinstance(op.assigned, D) and '._values.items[' not in path:
                # (not among `custom` values: a signed number after a number there is the documented ambiguity)
                # every 8th document: a positive value with more digits than the decimal context keeps (no arithmetic is involved
                # in storing and reading it)
                lv = D(f'{r.choice(["", "-"])}{r.randint(10 ** 28, 10 ** r.randint(29, 40))}E-{r.randint(0, 30)}')
                op = ops.Op(op.kind, f'{path}.{a} = {lv!r}', m, path, op.slot, lambda: setattr(m, a, lv), attr=a)
                op.assigned = lv
        except (decimal.DecimalException, ZeroDivisionError):
            continue
        if op is None:
            continue
        before = read_all(m)
        cls = type(m)
        ordinal = next(i for i, x in enumerate(x for _, x in walker.tree_models(f) if type(x) is cls) if x is m)   # by identity: equal twins exist
        # the assigned value is in the op's closure: recover it from the description by re-reading after the call
        wit = {'text': text, 'op': op.desc}
        try:
            op.apply()
        except Exception as e:
            col.skip(f'assignment raised {type(e).__name__} (C19/C12 decide)')
            return
        col.ev()
        col.count('generic_assignments')
        col.count('gprop:' + cls.__name__ + '.' + a)
        after = read_all(m)
        assigned = op.assigned
        if isinstance(assigned, D) and len(assigned.as_tuple().digits) > 28:
            col.count('generic_long_decimals')
        got = after.get(a)
        if got != norm(assigned):
            col.violation(f'generic:readback:{cls.__name__}.{a}', f'{op.desc}: reads back {got!r:.100}', wit)
            return
        if before.get(a) != got:
            col.nontrivial(text, path, a, repr(assigned))
        group = GROUPS.get(cls, set())
        for b in before:
            if b == a or (a in group and b in group):
                continue
            if before[b] != after[b]:
                col.violation(f'generic:sibling-changed:{cls.__name__}.{a}->{b}', f'{op.desc}: sibling property {b} changed '
                              f'{before[b]!r:.80} -> {after[b]!r:.80}', wit)
                return
        col.count('reparse_checks')
        try:
            f2 = P.parse(common.pr(f), models.File)
        except Exception as e:
            col.violation(f'generic:reparse-fails:{cls.__name__}.{a}', f'{op.desc}: printed document does not parse ({type(e).__name__})',
                          dict(wit, printed=common.pr(f)))
            return
        m2 = locate(f2, cls, ordinal)
        if m2 is None:
            col.violation(f'generic:reparse-lost-model:{cls.__name__}.{a}', f'{op.desc}: the edited model is gone after re-parse', dict(wit, printed=common.pr(f)))
            return
        again = read_all(m2)
        # which model owns a comment after re-parse is decided by the attribution rules (C14), not by the setter that created it
        diff = [b for b in after if b not in ('leading_comment', 'trailing_comment') and after[b] != again.get(b) and not (isinstance(after[b], str) and 'comment' in b and isinstance(again.get(b), str)
                                                                       and after[b].rstrip() == again[b].rstrip())]
        if diff:
            b = diff[0]
            col.violation(f'generic:reparse-mismatch:{cls.__name__}.{b}', f'{op.desc}: after print + re-parse {b} reads {again.get(b)!r:.80}, '
                          f'the model said {after[b]!r:.80}', dict(wit, printed=common.pr(f)))
            return
    if idx % 211 == 0:
        col.sample({'text': text, 'last_assignment': op.desc if 'op' in locals() and op else None})


def run_case(col, r, idx):
    if idx < N_ENUM:
        cost_enum_case(col, idx)
    elif idx < N_ENUM + len(TXN_FORMS):
        txn_case(col, idx - N_ENUM)
    elif col.tier == 'thorough' and idx % 3 == 0:
        cost_random_case(col, r, idx)
    else:
        generic_case(col, r, idx)


def derive(counters):
    counters['generic_props_seen'] = sum(1 for k in counters if k.startswith('gprop:'))
