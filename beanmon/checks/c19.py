"""C19 A refused operation leaves the document exactly as it was (monitor M4 around every call that raises)."""
import copy
import datetime
import decimal
import operator

from .. import common, gen, ops, walker, storemodel, values
from autobean_refactor import models, token_store as ts
from autobean_refactor.models import base as mbase

D = decimal.Decimal
CASES = {'quick': 8000, 'thorough': 120000}
SMALL_BLOCKS = 4      # runner: every 4th case keeps its stores in 2..10-token blocks
GATES = {
    'quick': {'site:token-twice-in-batch': 50, 'site:consumed-node': 30, 'site:claim-after-release': 200, 'site:meta-update-attached': 30, 'cases_in_small_blocks': 50, 'evaluations': 4500, 'refused_calls_judged': 4500, 'site:attached-node-in-batch': 300, 'site:attached-node-single': 500,
              'site:index-or-key': 700, 'site:size-mismatch': 200, 'site:raw-text': 170, 'site:cost-combination': 45, 'site:cost-attached': 100,
              'site:arithmetic-attached': 170, 'site:ancestor-offered': 100, 'site:constructor-attached': 100, 'attached_list_assignments_refused': 50, 'constructor_given_signed_attached_value': 15, 'consumed_node_as_receiver': 25, 'site:claim-refused': 220, 'site:payee-attached': 50, 'site:store-foreign-token': 100,
              'site:whole-store-child': 50, 'batch_positions_seen': 3},
    'thorough': {'evaluations': 100000, 'batch_positions_seen': 3},
}
RULE = ('case = one accepted generated document and a history of 3..12 (thorough ..40) steps of which ~40% are deliberately invalid: an '
        'attached node (from the same or another parsed document) as the value of a node property or at a random position of an '
        'append/insert/[i]=/slice/extended-slice/extend batch on raw lists and filtered views; out-of-range indices, missing keys, '
        'wrong-length slice and extended-slice assignments; raw_text the token type cannot represent; cost number/currency combinations '
        'the model rejects and attached nodes through the cost setters; in-place arithmetic with an attached right operand; raw_payee '
        ':= attached string; claim/unclaim of foreign or already claimed comments; TokenStore.splice with tokens of another store; and a '
        'child that spans its parent\'s whole private store. One evaluation = one call that raised, bracketed by M4: for every document '
        'involved (the receiver\'s and the one an attached argument lives in) token identities, texts and order incl. zero-width tokens, '
        'claimed flags, the structural digest with attribution and the M3 verdict must equal the snapshot taken before the call; '
        'additionally a call that must be refused (attached node) must raise. Non-trivial = the driver made the call with an invalid '
        'argument; distinct = hash(text, op log).')
RULE += (' Also (rounds 8-12): special refusals ancestor-offered (known finding), consumed expression as receiver of in-place operators / value=, constructor given an attached value, whole-list assignment of a list attached elsewhere (the offered list object must still belong to its model after the refusal).')
ASSUMPTIONS = ['only exceptions escaping the outermost API call are judged',
               'damage to free-standing donor nodes (never part of a document) is recorded as a diagnostic, not a verdict']
KF_WHOLE_STORE = 'whole-store-child-accepted'
KF_ANCESTOR = 'ancestor-offered-as-child'

_corpus = None
_roots = {}


def setup(col):
    global _corpus
    _corpus = ops.Corpus(col.seed, 60)
    for t, f in _corpus.docs:
        _roots[id(f.token_store)] = f


def doc_snapshot(f):
    store = f.token_store
    toks = list(store)
    return (
        [(id(t), t.raw_text) for t in toks],
        [(id(t), t.claimed) for t in toks if isinstance(t, models.BlockComment)],
        walker.digest(f, comments='keep'),
        tuple(e[0] for e in walker.check_tree(f)),
    )


def diff_kind(a, b):
    if [x[0] for x in a[0]] != [x[0] for x in b[0]]:
        vis_a = [x for x in a[0] if x[1]]
        vis_b = [x for x in b[0] if x[1]]
        return 'tokens-added-removed-or-reordered' if [x[0] for x in vis_a] != [x[0] for x in vis_b] else 'zero-width-tokens-moved'
    if a[0] != b[0]:
        return 'token-text-changed'
    if a[1] != b[1]:
        return 'claimed-flags-changed'
    if a[2] != b[2]:
        return 'tree-structure-changed'
    if a[3] != b[3]:
        return 'tree-invariants-changed'
    return None


def involved_docs(f, donors):
    docs = [f]
    for d in donors:
        st = getattr(d, 'token_store', None)
        if st is not None and id(st) in _roots and _roots[id(st)] is not f:
            docs.append(_roots[id(st)])
    return docs


def judge_refusal(col, site, desc, docs, before, exc, wit):
    col.ev()
    col.count('refused_calls_judged')
    col.count('site:' + site)
    for doc, b in zip(docs, before):
        try:
            a = doc_snapshot(doc)
        except Exception as e:
            col.violation(f'{site}:document-unreadable-after-refusal', f'{desc} raised {type(exc).__name__}; afterwards the document cannot be '
                          f'walked: {type(e).__name__}: {e}', wit)
            return False
        k = diff_kind(b, a)
        if k:
            which = 'receiver document' if doc is docs[0] else 'document the attached argument lives in'
            col.violation(f'{site}:{k}', f'{desc} raised {type(exc).__name__}: {exc}; the {which} changed ({k})',
                          dict(wit, before=''.join(x[1] for x in b[0]), after=''.join(x[1] for x in a[0])))
            return False
    return True


def site_of(op):
    if op.invalid:
        return 'attached-node-in-batch' if op.kind.split(':')[1] in ('setslice', 'setext', 'extend') else 'attached-node-single'
    if op.expect in (IndexError, KeyError):
        return 'index-or-key'
    if op.expect is ValueError:
        return 'size-mismatch'
    return 'unexpected'


GARBAGE = ['garbage', '', '"unterminated', '2000-13-45', 'TRUE1', '12x', '#', 'a:b:c', '\n', '; x', '99999-01-01', '2000-02-30', 'nan']


def special_step(col, r, f, text, log):
    """One deliberately invalid call outside the catalog. Returns False to end the history."""
    kind = r.choice(['raw-text', 'raw-text', 'raw-text', 'cost-combination', 'cost-attached', 'arithmetic-attached', 'arithmetic-attached', 'claim-refused', 'claim-refused',
                     'payee-attached', 'store-foreign-token', 'whole-store-child', 'token-twice-in-batch', 'consumed-node', 'meta-update-attached', 'claim-after-release', 'claim-after-release', 'ancestor-offered', 'constructor-attached'])
    donors = []
    call = None
    nodes = list(walker.walk(f))
    if kind in ('cost-combination', 'cost-attached') and not any(isinstance(m, models.CostSpec) for p, m in nodes):
        from .c09 import FORMS, EXTRA, cost_text
        try:
            f = common.parser().parse(f'2000-01-01 *\n    Assets:Foo  1 USD {cost_text(r.choice(FORMS), r.choice(EXTRA))}\n', models.File)
        except Exception:
            return True
        text = common.pr(f)
        log = []
        nodes = list(walker.walk(f))
    if kind == 'raw-text':
        toks = [t for t in f.token_store if hasattr(type(t), 'value')]
        if not toks:
            return True
        t = r.choice(toks)
        g = r.choice(GARBAGE)
        desc = f'<{type(t).__name__} {t.raw_text!r:.30}>.raw_text = {g!r}'
        call = lambda: setattr(t, 'raw_text', g)
    elif kind == 'cost-combination':
        cs = [m for p, m in nodes if isinstance(m, models.CostSpec)]
        if not cs:
            return True
        c = r.choice(cs)
        try:
            per, tot, cur = c.number_per, c.number_total, c.currency
        except Exception:
            return True
        if per is not None and tot is None and cur is None:
            desc, call = 'cost.number_total = 5 (number_per set, no currency)', lambda: setattr(c, 'number_total', D(5))
        elif tot is not None and per is None and cur is None:
            desc, call = 'cost.number_per = 5 (number_total set, no currency)', lambda: setattr(c, 'number_per', D(5))
        elif per is not None and tot is not None:
            desc, call = 'cost.currency = None (both numbers set)', lambda: setattr(c, 'currency', None)
        else:
            return True
    elif kind == 'cost-attached':
        cs = [m for p, m in nodes if isinstance(m, models.CostSpec)]
        if not cs:
            return True
        c = r.choice(cs)
        attr = r.choice(['raw_number_per', 'raw_number_total', 'raw_currency', 'raw_date', 'raw_label'])
        src = _corpus.attached_node(r, models.Posting, 'raw_number') if 'number' in attr else \
            _corpus.attached_node(r, models.Posting, 'raw_currency') if attr == 'raw_currency' else \
            _corpus.attached_node(r, models.Balance, 'raw_date') if attr == 'raw_date' else _corpus.attached_node(r, models.Note, 'raw_comment')
        if src is None:
            return True
        donors = [src]
        desc = f'cost.{attr} = <attached {type(src).__name__} {common.pr(src)!r:.30}>'
        call = lambda: setattr(c, attr, src)
    elif kind == 'arithmetic-attached':
        es = [m for p, m in nodes if isinstance(m, models.NumberExpr)]
        src = _corpus.attached_node(r, models.Posting, 'raw_number')
        if not es or src is None:
            return True
        e = r.choice(es)
        if r.random() < 0.3 and len(es) > 1:
            src = r.choice([x for x in es if x is not e])      # attached in the same document
        donors = [src]
        o = r.choice(['+', '-', '*', '/'])
        iop = {'+': operator.iadd, '-': operator.isub, '*': operator.imul, '/': operator.itruediv}[o]
        desc = f'<NumberExpr {common.pr(e)!r:.30}> {o}= <attached NumberExpr {common.pr(src)!r:.30}>'
        call = lambda: iop(e, src)
    elif kind == 'claim-refused':
        mg = ops.MiscGenerator(r)
        if r.random() < 0.5:
            foreign = r.choice(_corpus.docs)[1]
            cs = [t for t in foreign.token_store if isinstance(t, models.BlockComment)]
            wr = [getattr(m, a) for p, m in walker.tree_models(f) for a, d, k in ops.catalog(type(m)) if k == 'raw_list_comments']
            if not cs or not wr:
                return True
            w = r.choice(wr)
            own = [x for x in w if isinstance(x, models.BlockComment)]
            sel = [r.choice(cs)] + (r.sample(own, 1) if own else [])
            r.shuffle(sel)
            fn = r.choice([w.claim_interleaving_comments, w.unclaim_interleaving_comments])
            if own and r.random() < 0.5:
                # first release the list's comments (an accepted call), then ask the list to claim one of them together with a
                # comment it cannot find: the refusal must not even have moved a placeholder
                released = list(w.unclaim_interleaving_comments())
                log.append('(setup) unclaim_interleaving_comments()')
                sel = [r.choice(released), r.choice(cs)] if r.random() < 0.5 else [r.choice(cs), r.choice(released)]
                fn = w.claim_interleaving_comments
                col.count('claim_refusals_after_release')
            desc = f'{fn.__name__}(<{len(sel)} comments, one of another document>)'
            call = lambda: fn(sel)
        else:
            op = mg.claim_op(f)
            if op is None:
                return True
            desc, call = op.desc, op.apply
    elif kind == 'payee-attached':
        ts_ = [m for p, m in nodes if isinstance(m, models.Transaction)]
        src = _corpus.attached_node(r, models.Note, 'raw_comment') or _corpus.attached_node(r, models.Event, 'raw_type')
        if not ts_ or src is None:
            return True
        t = r.choice(ts_)
        donors = [src]
        attr = r.choice(['raw_payee', 'raw_payee', 'raw_narration'])
        desc = f'transaction.{attr} = <attached EscapedString> (payee={t.payee!r:.15}, narration={t.narration!r:.15})'
        call = lambda: setattr(t, attr, src)
    elif kind == 'store-foreign-token':
        toks = list(f.token_store)
        foreign = r.choice(_corpus.docs)[1]
        ft = [t for t in foreign.token_store]
        if not toks or not ft:
            return True
        donors = [foreign]
        a = r.randrange(len(toks))
        b = r.randrange(a, len(toks))
        batch = [models.Whitespace.from_default(), r.choice(ft), models.Whitespace.from_default()]
        r.shuffle(batch)
        how = r.choice(['splice', 'insert_after', 'insert_before', 'replace'])
        desc = f'token_store.{how}(<batch with a token of another store>) at {a}..{b}'
        st = f.token_store
        if how == 'splice':
            call = lambda: st.splice(batch, toks[a], toks[b])
        elif how == 'insert_after':
            call = lambda: st.insert_after(toks[a], batch)
        elif how == 'insert_before':
            call = lambda: st.insert_before(toks[a], batch)
        else:
            call = lambda: st.replace(toks[a], next(t for t in batch if t.store_handle is not None))
    elif kind == 'claim-after-release':
        # a comment at the very start or end of a list (put there through the API where the document has none), released by the
        # list, then offered back together with a comment the list cannot find: the refusal must not even have moved a placeholder
        foreign = r.choice(_corpus.docs)[1]
        cs = [t for t in foreign.token_store if isinstance(t, models.BlockComment)]
        wr = [(p, m, getattr(m, a)) for p, m in walker.tree_models(f) for a, d, k in ops.catalog(type(m)) if k == 'raw_list_comments']
        if not cs or not wr:
            return True
        p_, m_, w = r.choice(wr)
        txns = [(p, m) for p, m in walker.tree_models(f) if isinstance(m, models.Transaction)]
        try:
            if txns and r.random() < 0.6:
                # the gap between a transaction's meta list and its postings list: the comment is released by one of the two
                # lists and offered to the other, whose claim has to move a placeholder across it
                p_, m_ = r.choice(txns)
                mw, pw = m_.raw_meta_with_comments, m_.raw_postings_with_comments
                first = next((x for x in list(mw) + list(pw) if hasattr(x, 'indent')), None)
                c = models.BlockComment.from_value('offered back', indent=(first.indent if first is not None else '') or '    ')
                if r.random() < 0.5:
                    pw.insert(0, c)
                    pw.unclaim_interleaving_comments([c])
                    w = mw
                else:
                    mw.append(c)
                    mw.unclaim_interleaving_comments([c])
                    w = pw
                col.count('claim_after_release_across_lists')
            else:
                first = next((x for x in w if hasattr(x, 'indent')), None)
                ind = first.indent if first is not None else ('' if isinstance(m_, models.File) else '    ')
                c = models.BlockComment.from_value('offered back', indent=ind)
                w.insert(r.choice([0, len(w)]), c)
                w.unclaim_interleaving_comments([c])
        except (ValueError, IndexError):
            return True
        log.append(f'(setup) {p_}: insert a comment at one end of a list, release it')
        sel = [c, r.choice(cs)] if r.random() < 0.5 else [r.choice(cs), c]
        desc = f'{p_}.claim_interleaving_comments(<the released comment and one of another document>)'
        call = lambda: w.claim_interleaving_comments(sel)
    elif kind == 'meta-update-attached':
        # a batch for meta.update() / raw_meta.update() whose last entry is a node that lives elsewhere: nothing may be written
        owners = [(p, m) for p, m in nodes if isinstance(m, mbase.RawTreeModel) and ops.desc_of(type(m), 'meta') is not None]
        src = _corpus.attached_node(r, models.Posting, 'raw_account') or _corpus.attached_node(r, models.Balance, 'raw_date')
        if not owners or src is None:
            return True
        p_, m_ = r.choice(owners)
        donors = [src]
        k1, k2 = 'kq' + str(r.randint(0, 99)), 'kr' + str(r.randint(0, 99))
        if r.random() < 0.5:
            batch = [(k1, D(r.randint(1, 9))), (k2, src)]
            desc = f'{p_}.meta.update([({k1!r}, <number>), ({k2!r}, <attached {type(src).__name__}>)])'
            call = lambda: m_.meta.update(batch)
        else:
            item = _corpus.attached_node(r, models.Close, 'raw_meta') if False else None
            free = models.MetaItem.from_value(k1, 'v', indent='    ')
            other = next((x for d_ in _corpus.docs for _, x in walker.walk(d_[1]) if isinstance(x, models.MetaItem)), None)
            if other is None:
                return True
            donors = [other]
            batch = [(k1, free), (other.key, other)]
            desc = f'{p_}.raw_meta.update([({k1!r}, <free item>), ({other.key!r}, <item attached elsewhere>)])'
            call = lambda: m_.raw_meta.update(batch)
    elif kind == 'consumed-node':
        # a free expression whose tokens were taken over by `a += b` (its store is empty now) is not free any more
        es = [(p, m) for p, m in nodes if isinstance(m, models.NumberExpr)]
        if not es:
            return True
        p_, e = r.choice(es)
        a_ = models.NumberExpr.from_value(D(r.randint(1, 9)))
        b_ = models.NumberExpr.from_value(D(r.randint(1, 9)))
        a_ += b_
        how = r.choice(['assign', 'assign', 'operand', 'receiver', 'receiver'])
        if how == 'receiver':
            # the consumed expression as the *left* side of an in-place operator: its nodes now live inside another expression (here:
            # one of the document), which the call must not rewrite before it refuses
            c_ = common.parser().parse(r.choice(['1+2', '3 - 1', '4']), models.NumberExpr)
            try:
                if r.random() < 0.5:
                    e -= c_
                else:
                    e *= c_
            except Exception:
                return True
            log.append(f'(setup) {p_} -= / *= <free expression> (accepted; the operand is consumed)')
            what = r.choice(['*=', '+=', '-=expr', 'wrap', 'value=', 'value='])
            desc = f'<expression consumed by {p_}> {what} ...'
            free = common.parser().parse('5+6', models.NumberExpr)
            call = {'*=': lambda: operator.imul(c_, 2), '+=': lambda: operator.iadd(c_, 5), '-=expr': lambda: operator.isub(c_, free),
                    'wrap': c_.wrap_with_parenthesis, 'value=': lambda: setattr(c_, 'value', D(7))}[what]
            col.count('consumed_node_as_receiver')
        elif how == 'assign':
            desc = f'{p_}.raw_number_add_expr... = <expression already consumed by a += b>'
            parent = next((m for q, m in nodes if any(c is e for _, c in walker.children(m))), None)
            attr = next((a for a, d_, k in ops.catalog(type(parent)) if k in ('required_node', 'optional_node') and getattr(parent, a, None) is e), None) if parent is not None else None
            if attr is None:
                return True
            desc = f'<{type(parent).__name__}>.{attr} = <expression already consumed by a += b>'
            call = lambda: setattr(parent, attr, b_)
        else:
            desc = f'{p_} += <expression already consumed by another += >'
            call = lambda: operator.iadd(e, b_)
    elif kind == 'token-twice-in-batch':
        # the same free token twice in one batch of raw spacing / of a store call: it cannot sit at two places
        sp = [(p, m) for p, m in nodes if hasattr(type(m), 'raw_spacing_before') and m is not f]
        if not sp:
            return True
        p_, m_ = r.choice(sp)
        ws = r.choice([models.Whitespace.from_raw_text('   '), models.Newline.from_default()])
        batch = [ws, ws] if r.random() < 0.5 else [ws, models.Whitespace.from_default(), ws]
        side = r.choice(['raw_spacing_before', 'raw_spacing_after'])
        desc = f'{p_}.{side} = <batch holding one new token twice>'
        call = lambda: setattr(m_, side, batch)
    elif kind == 'constructor-attached':
        # a constructor of a new, free model is handed a node that lives in the document: it has to refuse before it prepares
        # (parenthesises, re-indents ...) any of its arguments in place
        cands = [(p, m) for p, m in nodes if isinstance(m, (models.NumberExpr, models.Amount))]
        signed = [(p, m) for p, m in cands if common.pr(m).lstrip()[:1] in '+-']
        if not cands:
            return True
        p_, src = r.choice(signed) if signed and r.random() < 0.8 else r.choice(cands)
        how = r.choice(['Custom.from_value', 'Custom.from_children'])
        desc = f'{how}(..., values=[1, <attached {type(src).__name__} {common.pr(src)!r:.20} at {p_}>])'
        dt = datetime.date(2000, 1, 1)
        if how == 'Custom.from_value':
            call = lambda: models.Custom.from_value(dt, 'y', [D(1), src])
        else:
            call = lambda: models.Custom.from_children(models.Date.from_value(dt), models.EscapedString.from_value('y'),
                                                       [models.NumberExpr.from_value(D(1)), src])
        col.count('constructor_given_signed_attached_value' if (p_, src) in signed else 'constructor_given_attached_value')
    elif kind == 'ancestor-offered':
        # the document itself (it spans its whole store, like every free-standing node) offered to one of its own lists
        wr = [(p, a, getattr(m, a)) for p, m in walker.tree_models(f) for a, d, k in ops.catalog(type(m)) if k in ('raw_list', 'raw_list_comments')]
        if not wr:
            return True
        p_, a_, w = r.choice(wr)
        how = r.choice(['append', 'insert', 'extend'])
        desc = f'{p_}.{a_}.{how}(<the document that holds the list>)'
        before = [doc_snapshot(f)]
        wit = {'text': text, 'log': log + [desc]}
        col.ev()
        col.count('site:ancestor-offered')
        col.nontrivial(text, tuple(log), desc)
        try:
            w.append(f) if how == 'append' else w.insert(0, f) if how == 'insert' else w.extend([f])
        except Exception as ex:
            try:
                k = diff_kind(before[0], doc_snapshot(f))
            except Exception:
                k = 'document-unreadable'
            if k:
                col.violation(KF_ANCESTOR, f'{desc} raised {type(ex).__name__}: {ex}; the document changed ({k}): it now prints {common.pr(f)!r:.60}', wit)
            return False
        col.violation('ancestor-offered:accepted', f'{desc} was accepted', wit)
        return False
    else:  # whole-store-child: a child that spans its parent's whole private store looks free to detach()
        es = [m for p, m in nodes if isinstance(m, models.NumberExpr)]
        if not es:
            return True
        e = r.choice(es)
        parent = models.NumberExpr.from_value(D(r.randint(1, 99)))
        child = parent.raw_number_add_expr
        desc = f'<NumberExpr {common.pr(e)!r:.30}>.raw_number_add_expr = NumberExpr.from_value(..).raw_number_add_expr (child of a free-standing parent)'
        docs = [f]
        before = [doc_snapshot(f)]
        wit = {'text': text, 'log': log + [desc]}
        try:
            e.raw_number_add_expr = child
        except Exception as ex:
            return judge_refusal(col, 'whole-store-child', desc, docs, before, ex, wit)
        col.ev()
        col.count('site:whole-store-child')
        col.nontrivial(text, tuple(log), desc)
        if parent.raw_number_add_expr is child and e.raw_number_add_expr is child:
            col.violation(KF_WHOLE_STORE, f'{desc} was accepted: the node now has two parents (the old one prints {common.pr(parent)!r})', wit)
        log.append(desc)
        return True
    docs = involved_docs(f, donors)
    before = [doc_snapshot(d) for d in docs]
    wit = {'text': text, 'log': log + [desc]}
    try:
        call()
    except (decimal.DecimalException,) as ex:
        if kind != 'raw-text':
            return False
        return judge_refusal(col, kind, desc, docs, before, ex, wit)
    except Exception as ex:
        col.nontrivial(text, tuple(log), desc)
        return judge_refusal(col, kind, desc, docs, before, ex, wit) and False
    # accepted
    col.count('accepted:' + kind)
    if kind in ('cost-attached', 'arithmetic-attached', 'payee-attached') and donors and isinstance(donors[0], mbase.RawModel):
        src = donors[0]
        col.ev()
        col.violation(f'{kind}:attached-node-accepted', f'{desc} was accepted although the node lives in another place', wit)
        return False
    if kind == 'store-foreign-token':
        col.ev()
        col.violation('store-foreign-token:accepted', f'{desc} was accepted', wit)
        return False
    if kind == 'meta-update-attached':
        col.ev()
        col.violation('meta-update-attached:accepted', f'{desc} was accepted although one node lives in another place', wit)
        return False
    if kind == 'constructor-attached':
        col.ev()
        col.violation('constructor-attached:accepted', f'{desc} was accepted although the node lives in the document', wit)
        return False
    if kind == 'consumed-node':
        col.ev()
        col.violation('consumed-node:accepted', f'{desc} was accepted: the node has no tokens of its own any more', wit)
        return False
    if kind == 'token-twice-in-batch':
        col.ev()
        col.violation('token-twice-in-batch:accepted', f'{desc} was accepted: one token object now sits at two places of the store', wit)
        return False
    log.append(desc)
    return True


def run_case(col, r, idx):
    lf = r.choice([2, 3, 5, 10]) if idx % 3 == 0 else 1000
    storemodel.set_load_factor(lf)
    try:
        text, f = gen.accepted_document(r, common.parser(), gen.SPACED if idx % 2 else gen.SPACED_LF, n=r.randint(2, 6))
        if f is None:
            col.skip('document rejected by parse')
            return
        _roots[id(f.token_store)] = f
        try:
            g = ops.Generator(_corpus, r, index_mode='grid', invalid_rate=0.35)
            nsteps = r.randint(3, 12) if col.tier == 'quick' else r.randint(3, 40)
            log = []
            for s in range(nsteps):
                if r.random() < 0.3:
                    if not special_step(col, r, f, text, log):
                        return
                    continue
                op = g.next_op(f)
                if op is None:
                    continue
                docs = involved_docs(f, op.donors)
                try:
                    before = [doc_snapshot(d) for d in docs]
                except Exception:
                    return
                wit = {'text': text, 'lf': lf, 'log': log + [op.desc]}
                try:
                    op.apply()
                except Exception as ex:
                    site = site_of(op)
                    if op.invalid or op.expect:
                        col.nontrivial(text, tuple(log), op.desc)
                    if op.invalid and hasattr(op, 'arity'):
                        pos = next((i for i, d in enumerate(op.donors) if d.token_store is not None and id(d.token_store) in _roots), None)
                        if pos is not None:
                            col.count('batchpos:' + ('first' if pos == 0 else 'last' if pos == len(op.donors) - 1 else 'middle'))
                    if judge_refusal(col, site, op.desc, docs, before, ex, wit) and getattr(op, 'after_refusal', None):
                        col.count('attached_list_assignments_refused')
                        msg = op.after_refusal()
                        if msg:
                            col.violation(f'{site}:offered-object-changed', f'{op.desc} raised {type(ex).__name__}; {msg}', wit)
                    return          # a refused call ends the history (the next step would start from an unjudged state otherwise)
                if op.invalid:
                    col.ev()
                    col.violation(f'attached-node-accepted:{op.kind}', f'{op.desc}: an attached node was accepted as a value', wit)
                    return
                log.append(op.desc)
            if idx % 397 == 0:
                col.sample({'text': text, 'ops': log})
        finally:
            _roots.pop(id(f.token_store), None)
    finally:
        storemodel.set_load_factor(1000)


def derive(counters):
    counters['batch_positions_seen'] = sum(1 for k in counters if k.startswith('batchpos:'))


def _pinned_whole_store(col):
    f = common.parser().parse('2000-01-01 *\n    Assets:Foo  1 USD\n', models.File)
    e = f.directives[0].postings[0].raw_number
    parent = models.NumberExpr.from_value(D(7))
    child = parent.raw_number_add_expr
    col.ev()
    try:
        e.raw_number_add_expr = child
    except ValueError:
        return
    if parent.raw_number_add_expr is child and e.raw_number_add_expr is child:
        col.violation(KF_WHOLE_STORE, 'posting.raw_number.raw_number_add_expr = NumberExpr.from_value(7).raw_number_add_expr was accepted: '
                      f'the node has two parents (the old one prints {common.pr(parent)!r})', {'text': common.pr(f)})


def _pinned_ancestor(col):
    f = common.parser().parse('2000-01-01 *\n    Assets:Foo  1 USD\n', models.File)
    before = doc_snapshot(f)
    col.ev()
    try:
        f.raw_directives_with_comments.append(f)
    except Exception as ex:
        if diff_kind(before, doc_snapshot(f)):
            col.violation(KF_ANCESTOR, f'file.raw_directives_with_comments.append(file) raised {type(ex).__name__}: {ex}; the document now prints '
                          f'{common.pr(f)!r}', {'text': '2000-01-01 *\n    Assets:Foo  1 USD\n'})
        return
    col.violation('ancestor-offered:accepted', 'file.raw_directives_with_comments.append(file) was accepted', {})


def _pinned_regressions(col):
    """Witnesses of the repaired refusal sites: each call must raise and leave the document untouched."""
    P = common.parser()
    text = ('2000-01-01 open Assets:Foo USD, EUR\n2000-01-02 *\n    kk: 1\n    Assets:Foo  1 USD {{2 EUR}}\n    Assets:Bar\n'
            '2000-01-03 custom "x" 1 Assets:A Assets:B TRUE\n')
    donor = P.parse('2000-01-03 open Assets:Baz CAD\n2000-01-04 note Assets:Baz "n"\n', models.File)
    att_cur = donor.directives[0].raw_currencies[0]
    cases = [
        ('slice assignment with an attached element', lambda f: f.directives[0].raw_currencies.__setitem__(slice(0, 1), [models.Currency.from_value('AAA'), att_cur])),
        ('extended-slice assignment with an attached element', lambda f: f.directives[0].raw_currencies.__setitem__(slice(None, None, 1), [models.Currency.from_value('AAA'), att_cur])),
        ('extend with an attached element', lambda f: f.directives[0].raw_currencies.extend([models.Currency.from_value('AAA'), att_cur])),
        ('filtered view assignment with an attached element', lambda f: f.raw_directives.__setitem__(slice(0, 2), [copy.deepcopy(donor.directives[0]), donor.directives[1]])),
        ('date.raw_text = garbage', lambda f: setattr(f.directives[0].raw_date, 'raw_text', 'garbage')),
        ('in-place arithmetic with an attached operand', lambda f: operator.imul(f.directives[1].postings[0].raw_number, f.directives[1].postings[0].cost.raw_number_total)),
        ('raw_payee = attached string', lambda f: setattr(f.directives[1], 'raw_payee', donor.directives[1].raw_comment)),
        ('cost.raw_number_per = attached number', lambda f: setattr(f.directives[1].postings[0].cost, 'raw_number_per', f.directives[1].postings[0].raw_number)),
        ('reverse() of custom values holding attached nodes', lambda f: f.directives[2].values.reverse()),
        ('splice with a token of another store', lambda f: f.token_store.insert_after(f.token_store.get_first(), [donor.token_store.get_first()])),
    ]
    for name, call in cases:
        f = P.parse(text, models.File)
        if name.startswith('raw_payee'):
            f.directives[1].narration = None
        before = [doc_snapshot(f), doc_snapshot(donor)]
        try:
            call(f)
        except Exception as ex:
            judge_refusal(col, 'pinned', name, [f, donor], before, ex, {'text': text, 'call': name})
            continue
        col.ev()
        col.violation('pinned:accepted:' + name.replace(' ', '-'), f'{name}: the call was accepted', {'text': text})


PINNED = [(KF_WHOLE_STORE, _pinned_whole_store), (KF_ANCESTOR, _pinned_ancestor), ('repaired refusal sites', _pinned_regressions)]
