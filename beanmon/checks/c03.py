"""C03 Adding, removing or replacing a child leaves everything else untouched (confinement oracle + list gap rule)."""
from .. import common, gen, ops, confine, walker, storemodel
from autobean_refactor import models
from autobean_refactor.models import base as mbase

CASES = {'quick': 5000, 'thorough': 100000}
SMALL_BLOCKS = 4      # runner: every 4th case keeps its stores in 2..10-token blocks
GATES = {
    'quick': {'cost_documents': 150, 'cost_sibling_checks': 300, 'cases_in_small_blocks': 50, 'evaluations': 7000, 'ops_changing_tokens': 6000, 'slot_kinds_seen': 12, 'op_kinds_seen': 60, 'list_position_cells': 12,
              'gap_checks': 1500, 'multi_value_at_index0_nonempty': 8, 'negative_index_ops': 150, 'view_runs_with_a_sibling_inside': 25, 'view_foreign_element_checks_nonempty': 250},
    'thorough': {'evaluations': 250000, 'slot_kinds_seen': 12, 'op_kinds_seen': 70},
}
RULE = ('case = one accepted generated document parsed with default attribution (a third of them squeezed into 2..10-token blocks), '
        'then a history of 1..12 (thorough ..40) catalog operations: optional set/clear/replace, required replace, value-level '
        'equivalents, every MutableSequence/MutableMapping operation on raw lists, filtered views, string views and meta mappings with '
        'the index grid 0,1,mid,-1,-len,len,out-of-range, slices and extended slices with 0..3 donor values taken from a disjoint donor '
        'corpus. One evaluation = one applied operation judged by the identity-level token diff (survivors keep order and text; each '
        'maximal run of removed/added tokens contains a token of the removed/added child, the rest being blanks, newlines, commas, and '
        'lies inside the parent; characters outside the parent unchanged) plus, for lists, the gap rule (old neighbours keep their gap; '
        'a new gap is an old gap of that list or the field default, never empty, never two commas). Non-trivial = the visible token '
        'sequence changed; distinct = hash(text, op log). Calls that raise are C19\'s and are only counted here.')
RULE += (' Also (rounds 9-11): elements of the underlying list that the mutated view does not show keep identity and order after every view operation; forced deletions / discard / remove of a view run with a sibling inside; a document that cannot be read while the next operation is built, or whose tokens cannot be listed for the snapshot, is reported (document-unreadable-after-accepted-edits).')
ASSUMPTIONS = ['"normally parsed document" = default parsing (attribution on), so every comment is owned and list gaps hold only separators',
               'for the form-changing setters the child is the documented dependent group (cost braces+components; payee/narration strings)']

_corpus = None
_seen_kinds = set()


def setup(col):
    global _corpus
    _corpus = ops.Corpus(col.seed, 70)
    col.count('uncovered_public_attributes', len(ops.uncovered_attributes()))


def _cost_group(attr):
    a = attr or ''
    if 'date' in a:
        return 'date'
    if 'label' in a:
        return 'label'
    if 'merge' in a or 'asterisk' in a:
        return 'merge'
    if a in ('raw_cost',):
        return 'all'
    return 'amount'


def _cost_components(cost):
    """{group: [(id, text)]} of the significant tokens inside a cost, by the kind of component they belong to."""
    out = {'date': [], 'label': [], 'merge': [], 'amount': []}
    for t in cost.tokens:
        if isinstance(t, models.Date):
            out['date'].append((id(t), t.raw_text))
        elif isinstance(t, models.EscapedString):
            out['label'].append((id(t), t.raw_text))
        elif type(t).__name__ == 'Asterisk':
            out['merge'].append((id(t), t.raw_text))
        elif isinstance(t, (models.Number, models.Currency)):
            out['amount'].append((id(t), t.raw_text))
    return out


TIGHT = ['2000-01-01 * "p" "n"#t\n    Assets:Foo  1 USD\n', '2000-01-01 custom "x"TRUE\n', '2000-01-01 * "n"#t ^l\n',
         '2000-01-01 custom "x"TRUE "y"\n', '2000-01-01 *"n"#t #u\n', '2000-01-01 note Assets:Foo "n"#t\n',
         '2000-01-01 document Assets:Foo "/p"^l #t\n', '2000-01-01 custom "x"1.5 USD\n', '2000-01-01 * "n"^l\n  k: 1\n']
COST_KINDS = ('py_property', 'optional_value', 'required_value', 'optional_node', 'unordered_node', 'custom_node')


def run_case(col, r, idx):
    lf = r.choice([2, 3, 5, 10]) if idx % 3 == 0 else 1000
    storemodel.set_load_factor(lf)
    try:
        prof = gen.LF_ONLY if idx % 2 else gen.DEFAULT
        text, f = gen.accepted_document(r, common.parser(), prof, n=r.randint(1, 6))
        cost_doc = idx % 9 == 4
        if cost_doc:
            # a posting with a cost in one of the concrete forms C09 enumerates (number and currency merged, separate, separate with
            # other components between them): the cost setters restructure the component list, siblings must survive it
            from .c09 import FORMS, EXTRA, BETWEEN, cost_text
            ct = cost_text(r.choice(FORMS), r.choice(EXTRA)) if r.random() < 0.5 else r.choice(BETWEEN)
            text = f'2000-01-01 * "p" "n"\n    Assets:Foo  1 USD {ct} ; c\n    Assets:Bar\n'
            try:
                f = common.parser().parse(text, models.File)
            except Exception:
                f = None
            col.count('cost_documents')
        tight_doc = idx % 9 == 7
        if tight_doc:
            # the first element of a list written right against the token before it (round 13): the list's zero-width placeholder sits
            # in a gap without blanks, so a removal that reaches back over "the separator" takes a token that is not the list's
            text = r.choice(TIGHT)
            try:
                f = common.parser().parse(text, models.File)
            except Exception:
                f = None
            col.count('tight_list_documents')
        if f is None:
            col.skip('document rejected by parse')
            return
        g = ops.Generator(_corpus, r, index_mode='grid', kinds=COST_KINDS if cost_doc and r.random() < 0.7 else
                          ops.LIST_KINDS if tight_doc and r.random() < 0.8 else None)
        # read every list view once, as a user inspecting the document would: this creates the cached views whose index tables
        # must follow later edits made through other views of the same list
        for _p, _m in walker.tree_models(f):
            for _a, _d, _k in ops.catalog(type(_m)):
                if _k in ops.LIST_KINDS:
                    try:
                        len(getattr(_m, _a))
                    except Exception:
                        pass
        nsteps = r.choice([1, 1, 2, 4, 12]) if col.tier == 'quick' else r.choice([1, 2, 6, 12, 40])
        log = []
        for s in range(nsteps):
            op = g.next_op(f)
            if op is None:
                col.skip('no applicable operation drawn')
                continue
            if getattr(op, 'unreadable', None):
                col.ev()
                col.violation('document-unreadable-after-accepted-edits', f'after {log[-1] if log else "the parse"}: {op.unreadable}',
                              {'text': text, 'lf': lf, 'log': log})
                return
            if getattr(op, 'composite', False):
                continue     # pop-and-reinsert is two operations; C05 drives it, this oracle judges single calls
            try:
                before = confine.Before(f, op)
            except Exception as e:
                # the snapshot only reads: tokens of the store, the parent's own tokens, the slot's nodes
                col.ev()
                col.violation('document-unreadable-after-accepted-edits', f'after {log[-1] if log else "the parse"}: reading the tokens of '
                              f'{op.path} raised {type(e).__name__}: {e}', {'text': text, 'lf': lf, 'log': log})
                return
            cost_before = _cost_components(op.parent) if isinstance(op.parent, models.CostSpec) else None
            items_before = None
            if hasattr(op, 'list_attr'):
                try:
                    items_before = list(getattr(op.parent, op.list_attr))
                    gaps_before = confine.gaps(f, items_before)
                except Exception:
                    items_before = None
            try:
                op.apply()
            except Exception as e:
                col.count('raised:' + ('expected' if op.expect else 'unexpected'))
                col.skip(f'call raised {type(e).__name__} (C19/C10 decide refusals)')
                return
            log.append(op.desc)
            col.ev()
            col.count('kind:' + op.kind)
            col.count('slot:' + op.kind.split(':')[0])
            changed = [(x[0], x[1]) for x in before.snap if x[1]] != walker.visible(f.token_store)
            if changed:
                col.count('ops_changing_tokens')
                col.nontrivial(text, tuple(log))
            if hasattr(op, 'position_class'):
                col.count(f'cell:{op.position_class}:{min(op.arity, 3)}')
                if 'idx' in op.desc or True:
                    pass
            if '(-' in op.desc or '[-' in op.desc:
                col.count('negative_index_ops')
            if getattr(op, 'arity', 0) >= 2 and items_before and ('[0:' in op.desc):
                col.count('multi_value_at_index0_nonempty')
            wit = {'text': text, 'lf': lf, 'log': log, 'before': before.text}
            try:
                errs = confine.judge(before, f, op)
            except Exception as e:
                col.skip(f'oracle could not read the state after the edit ({type(e).__name__}); C05 decides tree validity')
                return
            if errs:
                wit['after'] = common.store_text(f.token_store)
                col.violation(f'{errs[0][0]}:{op.kind}', f'{op.desc}: {errs[0][1]}', dict(wit, all=[e[0] for e in errs[:5]]))
                return
            if cost_before is not None:
                # inside a cost the setters may restructure the number/currency components, but a component of another kind than the
                # one addressed is a sibling: it keeps its token (date, label, merge mark) resp. its text (numbers, currency)
                col.count('cost_sibling_checks')
                group = _cost_group(op.attr)
                after = _cost_components(op.parent)
                for gname in ('date', 'label', 'merge', 'amount'):
                    if gname == group or group == 'all':     # (raw_cost replaces braces and components together)
                        continue
                    b, a_ = cost_before[gname], after[gname]
                    same = [x[1] for x in b] == [x[1] for x in a_] if gname == 'amount' else [x[0] for x in b] == [x[0] for x in a_]
                    if not same:
                        wit['after'] = common.store_text(f.token_store)
                        col.violation(f'cost-sibling-component-changed:{group}->{gname}:{op.kind}', f'{op.desc}: the {gname} component(s) of the cost were '
                                      f'{[x[1] for x in b]} before and are {[x[1] for x in a_]} after a call that addresses its {group}', wit)
                        return
            if op.list_check is not None:
                # which child the call adds/removes/replaces is defined by list semantics: anything else touched a sibling
                try:
                    msg = op.list_check()
                except Exception as e:
                    msg = f'reading the list after the call raised {type(e).__name__}: {e}'
                if msg:
                    wit['after'] = common.store_text(f.token_store)
                    col.violation(f'wrong-child-affected:{op.kind}', f'{op.desc}: the call changed another element than the one it addresses ({msg})', wit)
                    return
            if items_before is not None and op.attr != op.list_attr and (op.attr in _VIEW_TYPES or 'directives' in op.attr):
                # a call through a view addresses elements of the view: the elements of the underlying list that the view does not
                # show (links among tags, standalone comments among postings) are siblings and keep identity and order
                t = _VIEW_TYPES.get(op.attr)
                foreign = (lambda x: isinstance(x, models.BlockComment)) if t is None else (lambda x: not isinstance(x, t))
                try:
                    fb = [x for x in items_before if foreign(x)]
                    fa = [x for x in getattr(op.parent, op.list_attr) if foreign(x)]
                except Exception:
                    fa = fb = None
                if fb is not None:
                    col.count('view_foreign_element_checks')
                    if fb:
                        col.count('view_foreign_element_checks_nonempty')
                    if len(fa) != len(fb) or any(x is not y for x, y in zip(fa, fb)):
                        wit['after'] = common.store_text(f.token_store)
                        col.violation(f'sibling-outside-the-view-changed:{op.kind}', f'{op.desc}: elements of {op.list_attr} that {op.attr} does not '
                                      f'show were {[common.pr(x) for x in fb]} and are {[common.pr(x) for x in fa]}', wit)
                        return
            if items_before is not None and not op.kind.endswith(':assign'):     # a whole-list assignment brings its own gaps along
                try:
                    items_after = list(getattr(op.parent, op.list_attr))
                    gaps_after = confine.gaps(f, items_after)
                except Exception:
                    items_after = None
                if items_after is not None:
                    col.count('gap_checks')
                    v = _gap_rule(op, items_before, gaps_before, items_after, gaps_after)
                    if v:
                        wit['after'] = common.store_text(f.token_store)
                        col.violation(f'{v[0]}:{op.kind}', f'{op.desc}: {v[1]}', wit)
                        return
        if idx % 2 == 0 and not _view_run_with_a_sibling_inside(col, r, f, text, lf, log):
            return
        if idx % 397 == 0:
            col.sample({'text': text, 'lf': lf, 'ops': log, 'result': common.store_text(f.token_store)})
    finally:
        storemodel.set_load_factor(1000)


def _view_run_with_a_sibling_inside(col, r, f, text, lf, log):
    """A run of a view (two or more neighbouring elements of `tags`, `postings`, `raw_directives` ...) whose elements are not
    neighbours in the underlying list - a link between two tags, a standalone comment between two postings - is deleted or
    replaced through the view in one call: the element in between is a sibling. False = a violation was reported."""
    from .c10 import FAMILIES
    cands = []
    for path, m in walker.tree_models(f):
        for raw_attr, views in FAMILIES.items():
            if ops.desc_of(type(m), raw_attr) is None:
                continue
            for v in views:
                if ops.desc_of(type(m), v) is None or v in ('meta', 'values'):
                    continue
                t = _VIEW_TYPES.get(v)
                shown = (lambda x: not isinstance(x, models.BlockComment)) if t is None else (lambda x, t=t: isinstance(x, t))
                try:
                    raw = list(getattr(m, raw_attr))
                except Exception:
                    continue
                pos = [i for i, x in enumerate(raw) if shown(x)]
                for a in range(len(pos) - 1):
                    if pos[a + 1] - pos[a] > 1:
                        cands.append((path, m, raw_attr, v, a, shown))
    if not cands:
        return True
    path, m, raw_attr, v, a, shown = r.choice(cands)
    w = getattr(m, v)
    n = len(w)
    b = r.randint(a + 2, n)            # the run a..b-1 has at least the two elements around the sibling
    a = r.randint(0, a)
    raw_before = list(getattr(m, raw_attr))
    fb = [x for x in raw_before if not shown(x)]
    how = r.choice(['del', 'del', 'del-negative', 'clear', 'discard', 'discard', 'remove'])
    victim = None
    view_before = list(w)
    if how in ('discard', 'remove'):
        # ... or one element that stands behind the sibling, addressed by value
        victim = view_before[b - 1]
        # equality as the library's == sees it, taken while every element is still attached: type and text for nodes
        keyof = lambda x: (type(x).__name__, common.pr(x)) if isinstance(x, mbase.RawModel) else x
        vkey = keyof(victim)
        equal_before = sum(1 for x in view_before if keyof(x) == vkey)
    desc = {'del': f'del {path}.{v}[{a}:{b}]', 'del-negative': f'del {path}.{v}[{a - n}:{b}]', 'clear': f'{path}.{v}.clear()',
            'discard': f'{path}.{v}.discard(<element {b - 1}>)', 'remove': f'{path}.{v}.remove(<element {b - 1}>)'}[how]
    try:
        if how == 'del':
            del w[a:b]
        elif how == 'del-negative':
            del w[a - n:b]
        elif how == 'discard':
            w.discard(victim)
        elif how == 'remove':
            w.remove(victim)
        else:
            w.clear()
    except Exception as e:
        col.skip(f'view run deletion raised {type(e).__name__} (C19/C10 decide refusals)')
        return True
    col.ev()
    col.count('view_runs_with_a_sibling_inside')
    col.nontrivial(text, tuple(log), desc)
    fa = [x for x in getattr(m, raw_attr) if not shown(x)]
    if len(fa) != len(fb) or any(x is not y for x, y in zip(fa, fb)):
        col.violation(f'sibling-outside-the-view-changed:run:{how}', f'{desc}: elements of {raw_attr} that {v} does not show were '
                      f'{[common.pr(x) for x in fb]} and are {[common.pr(x) for x in fa]}',
                      {'text': text, 'lf': lf, 'log': log + [desc], 'after': common.store_text(f.token_store)})
        return False
    if victim is not None:
        left = list(w)
        gone = n - len(left)
        # (by value, like a list: remove() takes the first element equal to the argument - an earlier twin, if the view has one)
        equal_after = sum(1 for x in left if keyof(x) == vkey)
        if how == 'remove' and (gone != 1 or equal_after != equal_before - 1) or how == 'discard' and (gone != equal_before or equal_after):
            col.violation(f'wrong-element-removed:run:{how}', f'{desc}: the view had {n} elements ({equal_before} equal to the argument) and has '
                          f'{len(left)} now ({equal_after} equal to it)',
                          {'text': text, 'lf': lf, 'log': log + [desc], 'after': common.store_text(f.token_store)})
            return False
        if False:
            col.violation('wrong-element-removed:run:discard', f'{desc}: {victim!r} is still in the view',
                          {'text': text, 'lf': lf, 'log': log + [desc], 'after': common.store_text(f.token_store)})
            return False
    printed = common.store_text(f.token_store)
    missing = [common.pr(x) for x in fb if common.pr(x) not in printed]
    if missing:
        col.violation(f'sibling-text-lost:run:{how}', f'{desc}: the text of {missing} is gone from the document',
                      {'text': text, 'lf': lf, 'log': log + [desc], 'after': printed})
        return False
    return True


from .c10 import VIEW_TYPES as _VIEW_TYPES  # noqa: E402  (which element types each view shows)


def _gap_rule(op, items_before, gaps_before, items_after, gaps_after):
    old_pairs = {}
    for (x, y), gp in zip(zip(items_before, items_before[1:]), gaps_before):
        old_pairs[(id(x), id(y))] = gp
    allowed = {gp for gp in gaps_before if gp is not None}
    d = confine.default_gap(type(op.parent), op.list_attr)
    if d is not None:
        allowed.add(d)
    for (x, y), gp in zip(zip(items_after, items_after[1:]), gaps_after):
        if gp is None:
            return ('gap-unreadable', 'could not walk from one element to the next in the store')
        key = (id(x), id(y))
        if key in old_pairs:
            if old_pairs[key] != gp and old_pairs[key] is not None:
                return ('neighbour-gap-changed', f'the separator between two elements that were already neighbours changed {old_pairs[key]!r} -> {gp!r}')
            continue
        if gp == '':
            return ('empty-gap', 'two list elements now abut with no separator')
        if gp.count(',') > 1:
            return ('double-separator', f'new gap {gp!r} holds two commas')
        if gp not in allowed:
            return ('foreign-gap', f'new gap {gp!r} is neither an existing gap of this list nor the field default {d!r}')
    return None


def derive(counters):
    counters['slot_kinds_seen'] = sum(1 for k in counters if k.startswith('slot:'))
    counters['op_kinds_seen'] = sum(1 for k in counters if k.startswith('kind:'))
    counters['list_position_cells'] = sum(1 for k in counters if k.startswith('cell:'))
