"""C12 Token value, raw text and lexer agree for every value in the domain."""
import datetime
import decimal
import re

from .. import common, values
from autobean_refactor import models

CASES = {'quick': 2400, 'thorough': 48000}
GATES = {
    'quick': {'refused_raw_text_assignments': 100, 'ragged_then_reindented': 30, 'evaluations': 20000, 'value_roundtrips': 12000, 'lexemes_accepted': 3000, 'assignment_steps': 4000,
              'classes_value_roundtrip': 14, 'terminals_with_lexemes': 40, 'hostile_comment_values': 300},
    'thorough': {'evaluations': 700000, 'classes_value_roundtrip': 14, 'terminals_with_lexemes': 40},
}
RULE = ('three workloads per case. (a) value round trip for the 15 token classes that carry a value: from_value(v).value == v, the raw '
        'text fullmatches the terminal regexp taken from the compiled grammar AND the real parse_token lexes it as exactly one token of '
        'that type with value v (and indent, for block comments). (b) lexemes: strings generated from each terminal regexp by '
        'hypothesis.from_regex (seeded by VERIF_SEED) plus hand-picked edge lexemes; when the real lexer takes the string as one token '
        'of the type and its meaning is a valid value (dates checked by an independent calendar test) from_raw_text must accept it '
        'and keep it verbatim, and from_value(token.value) must re-lex to the same value. (c) random sequences of value/raw_text/indent '
        'assignments on one token; after each step re-lexing raw_text gives token.value. One evaluation = one of these comparisons; '
        'non-trivial = value non-empty / lexeme longer than 1 char; distinct = hash(token type, value or lexeme).')
ASSUMPTIONS = ['domains as narrowed in DESIGN.md C12 (inline comments without leading blank or CR/LF, comment line breaks \\r*\\n only, '
               'numbers non-negative without exponent)',
               'lexeme membership is decided by the real lexer (parse_token); regex generation only proposes strings']

VALUE_CLASSES = ['Account', 'BlockComment', 'Bool', 'Currency', 'Date', 'EscapedString', 'Indent', 'InlineComment', 'Link', 'MetaKey',
                 'Number', 'PostingFlag', 'Tag', 'TransactionFlag']
_TERMS = {}
_LEX = {}


def _terminals():
    if not _TERMS:
        tb = common.parser()._lark.parser.lexer_conf.terminals_by_name
        for name, cls in models.TOKEN_MODELS.items():
            if name in tb:
                try:
                    _TERMS[name] = (cls, re.compile(tb[name].pattern.to_regexp()))
                except re.error:
                    pass
    return _TERMS


def _lex(text, cls):
    """-> ('ok', token) | ('nolex', exc) | ('raise', exc)"""
    from lark import exceptions as lex
    if cls is models.Indent:
        # the INDENT terminal ends in a lookahead for the first character of the line, so it cannot be lexed on its own:
        # membership is "blanks and tabs only", as the terminal's body says
        if not re.fullmatch(r'[ \t]+', text):
            return 'nolex', ValueError('not [ \\t]+')
        try:
            return 'ok', cls.from_raw_text(text)
        except Exception as e:
            return 'raise', e
    try:
        return 'ok', common.parser().parse_token(text, cls)
    except (lex.UnexpectedCharacters, lex.UnexpectedToken, lex.UnexpectedInput) as e:
        return 'nolex', e
    except Exception as e:
        return 'raise', e


def _meaning_valid(cls, s):
    if cls is models.Date:
        import calendar
        y, m, d = map(int, re.split('[-/]', s))
        if not (1 <= y <= 9999 and 1 <= m <= 12 and 1 <= d <= calendar.monthrange(y, m)[1]):
            return False
    return True


def _same_value(cls, a, b):
    return a == b and type(a) is type(b)


def check_value(col, cls, v, indent=''):
    name = cls.__name__
    wit = {'class': name, 'value': repr(v), 'indent': indent}
    try:
        t = cls.from_value(v, indent=indent) if cls is models.BlockComment else cls.from_value(v)
    except Exception as e:
        col.violation(f'from_value-raises:{name}', f'{name}.from_value({v!r}) raised {type(e).__name__}: {e}', wit)
        return None
    col.ev()
    col.count('value_roundtrips')
    col.count('vclass:' + name)
    if v not in ('', None, False):
        col.nontrivial(name, repr(v), indent)
    if not _same_value(cls, t.value, v):
        col.violation(f'from_value-value:{name}', f'{name}.from_value({v!r}).value == {t.value!r}', wit)
        return t
    raw = t.raw_text
    wit['raw_text'] = raw
    cls2, rx = _terminals()[cls.RULE]
    if not (rx.fullmatch(raw) if cls is not models.Indent else re.fullmatch(r'[ \t]+', raw)):
        col.violation(f'raw-text-not-a-lexeme:{name}', f'{name}.from_value({v!r}) -> {raw!r} does not match the {cls.RULE} terminal', wit)
        return t
    st, t2 = _lex(raw, cls)
    if st != 'ok':
        col.violation(f'raw-text-does-not-lex:{name}:{st}', f'{name}.from_value({v!r}) -> {raw!r}: lexer says {type(t2).__name__}: {t2}', wit)
        return t
    if not _same_value(cls, t2.value, v) or t2.raw_text != raw or (cls is models.BlockComment and t2.indent != indent):
        col.violation(f'relex-value:{name}', f'{raw!r} lexes back to value {t2.value!r}, expected {v!r}', wit)
    return t


def check_lexeme(col, cls, s, origin):
    name = cls.__name__
    st, t = _lex(s, cls)
    col.count('lexemes_tried')
    if st == 'nolex':
        col.skip(f'not a single {cls.RULE} lexeme for the real lexer')
        return
    wit = {'class': name, 'lexeme': s, 'origin': origin}
    if st == 'raise':
        if not _meaning_valid(cls, s):
            col.skip('lexeme whose meaning is not a valid value (e.g. month 13)')
            return
        col.ev()
        col.violation(f'from_raw_text-raises:{name}', f'{name}: lexeme {s!r} rejected with {type(t).__name__}: {t}', wit)
        return
    col.ev()
    col.count('lexemes_accepted')
    col.count('lterm:' + cls.RULE)
    if len(s) > 1:
        col.nontrivial(name, 'lexeme', s)
    if t.raw_text != s:
        col.violation(f'raw-text-not-verbatim:{name}', f'{name}.from_raw_text({s!r}).raw_text == {t.raw_text!r}', wit)
        return
    if not hasattr(cls, 'value'):
        return
    v = t.value
    try:
        t1 = cls.from_value(v, indent=t.indent) if cls is models.BlockComment else cls.from_value(v)
    except Exception as e:
        col.violation(f'from_value-raises:{name}', f'{name}.from_value({v!r}) (value of lexeme {s!r}) raised {type(e).__name__}: {e}', wit)
        return
    st, t2 = _lex(t1.raw_text, cls)
    if st != 'ok' or not _same_value(cls, t2.value, v):
        col.violation(f'relex-value:{name}', f'lexeme {s!r} has value {v!r}; from_value gives {t1.raw_text!r} which '
                      f'{"does not lex" if st != "ok" else "lexes to " + repr(t2.value)}', wit)


EDGE_LEXEMES = {
    'NUMBER': ['1,234.', '0', '00.00', '1,000,000.000', '7.'],
    'DATE': ['2000/1/2', '0001-01-01', '9999-12-31', '2000-1/02', '2000-02-30', '12345-01-01'],
    'BLOCK_COMMENT': [';', '  ;x\r\r\n  ; y', '; a\x0cb', '; a\r\r\n; b', ';\n;', '\t; \x85x\n\t;  y', '; x\x1cy\n; z', ';a\n; b', ';;'],
    'INLINE_COMMENT': [';', ';x', ';  x  ', '; \x0c'],
    'ESCAPED_STRING': ['""', '"\\""', '"\\\\"', '"a\nb"', '"\\q"', '"\x0c\x85"', '"\\\\\\""'],
    'INDENT': [' ', '\t', ' \t '],
    'CURRENCY': ["A'B.C-D", '/XYZ', 'AB', '/A', 'A1'],
    'META_KEY': ['ab:', 'a-_9:'],
    'TRANSACTION_FLAG': ['txn', '*', 'P'],
}


def _lexeme_strategy(rx):
    from hypothesis import strategies as st
    alphabet = st.sampled_from(list('aZ09 \t\n\r";\\-/.,:#^*{}()@~+\'_é\x0c\x0b\x85  \x00\x1cbBxY!'))
    return st.from_regex(rx, fullmatch=True, alphabet=alphabet)


def _gen_lexemes(name, rx, seed, n):
    key = (name, seed, n)
    if key not in _LEX:
        from hypothesis import settings, given, seed as hseed, HealthCheck, Phase
        out = []

        @hseed(seed)
        @settings(max_examples=n, database=None, suppress_health_check=list(HealthCheck), deadline=None, phases=[Phase.generate])
        @given(_lexeme_strategy(rx))
        def run(s):
            out.append(s)
        try:
            run()
        except Exception:
            pass
        if not out:  # e.g. keyword terminals whose letters are not in the hostile alphabet
            from hypothesis import strategies as st

            @hseed(seed)
            @settings(max_examples=min(n, 4), database=None, suppress_health_check=list(HealthCheck), deadline=None, phases=[Phase.generate])
            @given(st.from_regex(rx, fullmatch=True))
            def run2(s):
                out.append(s)
            try:
                run2()
            except Exception:
                pass
        _LEX[key] = out
    return _LEX[key]


BAD_RAW = {
    'Date': ['2021-02-30', '2000-13-01', '2000-04-31', '2000/00/10', '20-01-01'],
    'Number': ['12.5O', '1..2', '1,2,', 'abc', '--1'],
    'EscapedString': ['noquotes', '"unterminated'],
    'Bool': ['MAYBE', 'true'],
    'Currency': ['usd', '1'],
    'Account': ['assets:foo', 'Assets'],
}


def run_case(col, r, idx):
    terms = _terminals()
    names = sorted(terms)
    # (a) value round trips
    for cname in VALUE_CLASSES:
        cls = getattr(models, cname)
        for _ in range(2):
            v = values.value_for(r, cls)
            indent = r.choice(['', '', '  ', '\t']) if cls is models.BlockComment else ''
            if cls is models.BlockComment and re.search('[\x0b\x0c\x1c-\x1e\x85  ]|\r\r\n', v):
                col.count('hostile_comment_values')
            check_value(col, cls, v, indent)
    # (b) lexemes: one terminal per case, rotating
    tname = names[idx % len(names)]
    cls, rx = terms[tname]
    nlex = 12 if col.tier == 'quick' else 25
    lex = _gen_lexemes(tname, rx, col.seed * 1000003 + idx // len(names), nlex)
    for s in lex:
        check_lexeme(col, cls, s, 'from_regex')
    for s in EDGE_LEXEMES.get(tname, []):
        check_lexeme(col, cls, s, 'hand-picked')
    # (c) assignment sequences
    cname = r.choice(VALUE_CLASSES)
    cls = getattr(models, cname)
    v0 = values.value_for(r, cls)
    try:
        t = cls.from_value(v0)
    except Exception:
        return
    log = [('from_value', repr(v0))]
    forced = []
    if cls is models.BlockComment and r.random() < 0.3:
        # an indented comment of several lines, respelled with another indentation on every line, then re-indented
        try:
            t = cls.from_value('first\nsecond ' + v0.replace('\r', ''), indent=r.choice(['  ', '\t', '    ']))
            log = [('from_value', repr(t.value), t.indent)]
            forced = ['ragged', 'indent']
        except Exception:
            forced = []
    for _ in range(r.randint(2, 6)):
        kind = r.choice(['value', 'raw_text', 'indent']) if cls is models.BlockComment else r.choice(['value', 'raw_text'])
        v = values.value_for(r, cls)
        force = forced.pop(0) if forced else None
        if force == 'indent':
            kind = 'indent'
        if force is None and r.random() < 0.12:
            # a raw text the type cannot mean (often a well-formed lexeme: 2021-02-30). If the assignment is refused the token must
            # be exactly what it was - text, value, indent - so that the two still describe each other; if the type takes it, the
            # sequence has left the domain and ends without a verdict.
            bad = r.choice(BAD_RAW.get(cname, []) + ['garbage', ''])
            before = (t.raw_text, t.value, getattr(t, 'indent', None))
            try:
                t.raw_text = bad
            except Exception as e:
                col.ev()
                col.count('refused_raw_text_assignments')
                col.nontrivial(cname, tuple(log), 'refused', bad)
                after = (t.raw_text, t.value, getattr(t, 'indent', None))
                if after != before or not _same_value(cls, after[1], before[1]):
                    col.violation(f'refused-raw-text-changed-token:{cname}', f'raw_text = {bad!r} raised {type(e).__name__}; the token now has '
                                  f'raw_text {after[0]!r} / value {after[1]!r}, before the call {before[0]!r} / {before[1]!r}',
                                  {'class': cname, 'log': log + [('raw_text (refused)', bad)]})
                    return
                log.append(('raw_text (refused)', bad))
                continue
            col.count('out_of_domain_raw_text_accepted')
            return
        if force == 'ragged':
            kind = 'raw_text'
            col.count('ragged_then_reindented')
        try:
            if kind == 'value':
                t.value = v
                log.append(('value', repr(v)))
            elif kind == 'raw_text':
                raw = values.respell(r, t, 'ragged' if force == 'ragged' else None) if (force == 'ragged' or r.random() < 0.4) else None      # the current value spelled differently
                if raw is None:
                    raw = (cls.from_value(v, indent=r.choice(['', ' ', '\t'])) if cls is models.BlockComment else cls.from_value(v)).raw_text
                else:
                    col.count('respelled_raw_text')
                t.raw_text = raw
                log.append(('raw_text', raw))
                if t.raw_text != raw:
                    col.ev()
                    col.violation(f'raw-text-not-verbatim-after-assignment:{cname}', f'assigned raw_text {raw!r}, the token keeps {t.raw_text!r}',
                                  {'class': cname, 'log': log})
                    return
            else:
                ind = r.choice(['', '  ', '\t', '    '])
                t.indent = ind
                log.append(('indent', ind))
        except Exception as e:
            col.ev()
            col.violation(f'assignment-raises:{cname}:{kind}', f'{cname}: in-domain {kind} assignment raised {type(e).__name__}: {e}',
                          {'class': cname, 'log': log, 'failed': (kind, repr(v))})
            return
        col.ev()
        col.count('assignment_steps')
        col.nontrivial(cname, tuple(log))
        st, t2 = _lex(t.raw_text, cls)
        wit = {'class': cname, 'log': log, 'raw_text': t.raw_text, 'value': repr(t.value)}
        if st != 'ok':
            col.violation(f'assigned-raw-text-does-not-lex:{cname}:{kind}', f'after {log[-1]} the raw text {t.raw_text!r} is not one {cls.RULE} lexeme', wit)
            return
        if not _same_value(cls, t2.value, t.value) or (cls is models.BlockComment and t2.indent != t.indent):
            col.violation(f'value-raw-text-disagree:{cname}:{kind}', f'after {log[-1]}: value {t.value!r} but raw text {t.raw_text!r} means {t2.value!r}', wit)
            return
        if kind == 'value' and not _same_value(cls, t.value, v):
            col.violation(f'value-readback:{cname}', f'assigned {v!r}, read {t.value!r}', wit)
            return
    if idx % 301 == 0:
        col.sample({'terminal': tname, 'lexemes': lex[:6], 'assignment_sequence': [list(x) for x in log]})


def derive(counters):
    counters['classes_value_roundtrip'] = sum(1 for k in counters if k.startswith('vclass:'))
    counters['terminals_with_lexemes'] = sum(1 for k in counters if k.startswith('lterm:'))
