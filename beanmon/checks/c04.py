"""C04 Operations that are not edits never change the document (monitor M5 around every non-edit call)."""
import copy
import decimal
import io

from .. import common, gen, ops, walker, storemodel
from autobean_refactor import models, printer
from autobean_refactor.models import base as mbase
from autobean_refactor.models.internal import properties as props, value_properties as vprops
from autobean_refactor.models.internal.repeated import Repeated

CASES = {'quick': 3000, 'thorough': 60000}
SMALL_BLOCKS = 4      # runner: every 4th case keeps its stores in 2..10-token blocks
GATES = {
    'quick': {'full_sweep_models': 20000, 'cases_in_small_blocks': 50, 'evaluations': 15000, 'claim_calls': 4000, 'claim_calls_moving_zero_width': 30, 'claim_calls_raising': 300,
              'attribute_reads': 90000, 'wrapper_reads': 15000, 'deepcopies': 1000, 'comparisons': 1000, 'auto_claim_calls': 800,
              'pingpong_sequences': 1100, 'underfull_block_holds_a_comment': 200},
    'thorough': {'evaluations': 400000, 'claim_calls_moving_zero_width': 800},
}
RULE = ('case = one accepted generated comment-dense document (either attribution mode, half of them in 2..5-token blocks so that claim '
        'splices cross block boundaries) and a random sequence of 5..40 non-edit calls: reading every public attribute of a model (and '
        'iterating / indexing / slicing / len / in / keys / values / items / get on every wrapper and view it returns), ==, !=, hash, repr, '
        'copy.deepcopy, print_model, tokens, iter_children_formatted, spacing getters, claim/unclaim of leading, trailing and interleaving '
        'comments (all, subsets, foreign comments, calls that raise), auto_claim_comments on any sub-model. One evaluation = one call '
        'bracketed by M5: the sequence of tokens with non-empty text (identity, text, order), the printed text and the multiset of '
        'zero-width tokens must be unchanged. At the end of every case each model of the document has all its public attributes read once '
        '(full sweep), with the same bracket. Non-trivial = the call ran attribution / copy / iteration code or moved a zero-width '
        'token; distinct = hash(text, call-log prefix).')
RULE += (' Also (rounds 10-12): after every call len(store) equals the number of tokens the store iterates; a quarter of the cases re-parse under a block size that leaves an under-full block (holding a comment where possible) and claim everything by hand.')
ASSUMPTIONS = ['zero-width tokens may be permuted by claim calls (that is their mechanism); only their multiset is compared',
               'a getter that raises (e.g. the value of 1/0) is recorded, not judged: the property is about the document, not the result']


def zero_width_ids(store):
    return sorted(id(t) for t in store if not t.raw_text)


def order_ids(store):
    return [id(t) for t in store]


def read_wrapper(col, w):
    n = 0
    try:
        ln = len(w)
        n += 1
        items = list(w)
        n += 1
        if isinstance(w, (props.RepeatedNodeWrapper, vprops.RepeatedValueWrapper)):
            for i in range(-ln, ln):
                w[i]
                n += 1
            w[:]
            w[::2]
            w[1:]
            n += 3
            if items and not hasattr(w, 'keys'):
                items[0] in w
                w.index(items[0]) if hasattr(w, 'index') else None
                w.count(items[0]) if hasattr(w, 'count') else None
                n += 3
            w == list(items)
            n += 1
        if hasattr(w, 'keys'):
            ks = list(w.keys())
            list(w.values())
            list(w.items())
            for k in ks:
                w[k]
                w.get(k)
                k in w
            w.get('zz-missing')
            'zz-missing' in w
            n += 5 + 3 * len(ks)
    except (decimal.DecimalException, ZeroDivisionError):
        col.skip('getter raised an arithmetic exception')
    col.count('wrapper_reads', n)


def sweep(col, m):
    n = 0
    for name in dir(m):
        if name.startswith('_'):
            continue
        try:
            v = getattr(m, name)
        except (decimal.DecimalException, ZeroDivisionError):
            col.skip('getter raised an arithmetic exception')
            continue
        except NotImplementedError:
            continue
        n += 1
        if callable(v):
            continue
        if isinstance(v, (props.RepeatedNodeWrapper, vprops.RepeatedValueWrapper)) or hasattr(v, 'keys'):
            read_wrapper(col, v)
        elif isinstance(v, (list, tuple)):
            list(v)
    col.count('attribute_reads', n)
    if isinstance(m, mbase.RawTreeModel) and not isinstance(m, Repeated):
        list(m.iter_children_formatted())
    m.tokens
    repr(m)


def run_case(col, r, idx):
    lf = r.choice([2, 3, 5, 8, 12, 20, 30]) if idx % 2 == 0 else 1000     # (re-splices that stay inside one block need blocks of some size)
    storemodel.set_load_factor(lf)
    try:
        acl = idx % 2 == 1
        P = common.parser()
        prof = gen.Profile(comments=2.0, crlf=(idx % 4 == 1))
        if idx % 3 in (0, 1):
            text, f = gen.accepted_layout(r, P, auto_claim_comments=acl)
        else:
            text, f = gen.accepted_document(r, P, prof, n=r.randint(2, 7), auto_claim_comments=acl)
        if f is None:
            col.skip('document rejected by parse')
            return
        underfull = False
        if idx % 4 == 2:
            # a block size under which the store starts out with an under-full block between a full one and a smaller one (what
            # from_tokens builds when the last run is between 1 and 1.5 blocks long): the first re-splice inside that block makes the
            # store rebalance it
            n = len(f.token_store)
            cands = [k for k in range(6, 61) if n // k >= 2 and 0 < n % k <= k // 2]
            if cands:
                # ... preferably one whose under-full block holds a comment (the calls below re-splice around comments)
                cpos = [i for i, t in enumerate(f.token_store) if isinstance(t, models.BlockComment)]
                good = [k for k in cands if any((n // k - 1) * k <= i < (n // k - 1) * k + k // 2 for i in cpos)]
                if good:
                    col.count('underfull_block_holds_a_comment')
                lf = r.choice(good or cands)
                underfull = True
                storemodel.set_load_factor(lf)
                f = P.parse(text, models.File, auto_claim_comments=acl)
                col.count('stores_starting_with_an_underfull_block')
        foreign = None
        store = f.token_store
        v0 = walker.visible(store)
        z0 = zero_width_ids(store)
        t0 = common.pr(f)
        mg = ops.MiscGenerator(r)
        log = []
        ncalls = r.randint(5, 20) if col.tier == 'quick' else r.randint(5, 40)
        pending = []
        if not acl and (idx % 3 == 0 or underfull):
            # with attribution off, claim everything by hand in a random order (meta lists before postings lists, meta items before
            # their neighbours ...): these are the orders in which placeholders sit between a model and the comment it claims
            from autobean_refactor.models.internal.surrounding_comments import SurroundingCommentsMixin
            for p, m in walker.walk(f):
                if isinstance(m, SurroundingCommentsMixin):
                    pending.append(ops.Op('claim:claim_t', f'{p}.claim_trailing_comment()', f, '$', lambda: [], m.claim_trailing_comment))
                    pending.append(ops.Op('claim:claim_l', f'{p}.claim_leading_comment()', f, '$', lambda: [], m.claim_leading_comment))
                if isinstance(m, mbase.RawTreeModel) and not isinstance(m, Repeated):
                    for a, d, k in ops.catalog(type(m)):
                        if k == 'raw_list_comments':
                            pending.append(ops.Op('claim:claim_i', f'{p}.{a}.claim_interleaving_comments()', f, '$', lambda: [],
                                                  getattr(m, a).claim_interleaving_comments))
            r.shuffle(pending)
            pending = pending[:60 if underfull else 30]
            ncalls += len(pending)
        if idx % 3 != 0 and not (underfull and pending):
            # hand one comment back and forth between its possible owners (claim, unclaim, claim by the neighbour, ...)
            pending = ops.pingpong_ops(f, r, r.randint(6, 14)) + pending
            pending.reverse()
            ncalls += len(pending)
            col.count('pingpong_sequences')
        for s in range(ncalls):
            nodes = list(walker.walk(f))
            kind = r.choice(['sweep', 'sweep', 'claim', 'claim', 'claim', 'claim', 'auto', 'deepcopy', 'compare', 'print', 'foreign-claim', 'hash'])
            if pending:
                kind = 'claim'
            before_order = order_ids(store)
            desc = kind
            nontrivial = kind not in ('hash',)
            raised = None
            try:
                if kind == 'sweep':
                    p, m = r.choice(nodes)
                    desc = f'read every public attribute of {p} ({type(m).__name__})'
                    sweep(col, m)
                elif kind == 'claim':
                    op = pending.pop() if pending else mg.claim_op(f)
                    if op is None:
                        continue
                    desc = op.desc
                    col.count('claim_calls')
                    op.apply()
                elif kind == 'auto':
                    p, m = r.choice(nodes)
                    desc = f'{p}.auto_claim_comments()'
                    col.count('auto_claim_calls')
                    m.auto_claim_comments()
                elif kind == 'deepcopy':
                    p, m = r.choice(nodes)
                    desc = f'copy.deepcopy({p})'
                    col.count('deepcopies')
                    copy.deepcopy(m)
                elif kind == 'compare':
                    (p1, a), (p2, b) = r.choice(nodes), r.choice(nodes)
                    desc = f'{p1} == {p2}'
                    col.count('comparisons')
                    a == b
                    a != b
                    b == a
                elif kind == 'print':
                    p, m = r.choice(nodes)
                    desc = f'print_model({p})'
                    printer.print_model(m, io.StringIO())
                elif kind == 'hash':
                    toks = [t for t in store]
                    if not toks:
                        continue
                    t = r.choice(toks)
                    desc = f'hash(<{type(t).__name__}>)'
                    hash(t)
                elif kind == 'foreign-claim':
                    # claim / unclaim comments that belong to another document: must raise and change nothing
                    if foreign is None:
                        foreign = P.parse('; foreign\n2000-01-01 open Assets:Foo\n    ; inner\n    a: 1\n', models.File)
                    cs = [t for t in foreign.token_store if isinstance(t, models.BlockComment)]
                    wr = [getattr(m, a) for p, m in walker.tree_models(f) for a, d, k in ops.catalog(type(m)) if k == 'raw_list_comments']
                    if not wr:
                        continue
                    w = r.choice(wr)
                    fn = r.choice([w.claim_interleaving_comments, w.unclaim_interleaving_comments])
                    desc = f'{fn.__name__}(<comment of another document>)'
                    col.count('claim_calls')
                    fn([r.choice(cs)])
            except (decimal.DecimalException, ZeroDivisionError):
                col.skip('call raised an arithmetic exception')
            except Exception as e:
                raised = e
                if kind in ('claim', 'foreign-claim'):
                    col.count('claim_calls_raising')
                elif kind in ('sweep', 'compare', 'hash', 'print', 'deepcopy', 'auto'):
                    col.count('nonclaim_calls_raising:' + type(e).__name__)
            log.append(desc + (f' -> raised {type(raised).__name__}' if raised else ''))
            col.ev()
            moved = order_ids(store) != before_order
            if moved:
                col.count('claim_calls_moving_zero_width')
            if nontrivial or moved:
                col.nontrivial(text, tuple(log))
            wit = {'text': text, 'acl': acl, 'lf': lf, 'calls': log}
            v1 = walker.visible(store)
            if v1 != v0:
                what = 'identity/order' if [x[0] for x in v1] != [x[0] for x in v0] else 'text'
                col.violation(f'visible-tokens-changed:{kind}:{what}', f'after {desc}: the sequence of visible tokens changed ({what})',
                              dict(wit, now=common.store_text(store)))
                return
            if zero_width_ids(store) != z0:
                col.violation(f'zero-width-tokens-created-or-dropped:{kind}', f'after {desc}: the multiset of zero-width tokens changed', wit)
                return
            n_tokens = sum(1 for _ in store)
            if len(store) != n_tokens:
                # (what the store says about its own length decides whether a model prints at all: an "empty" store prints '')
                col.violation(f'store-length-drift:{kind}', f'after {desc}: len(store) == {len(store)}, the store holds {n_tokens} tokens', wit)
                return
            if common.pr(f) != t0:
                col.violation(f'printed-text-changed:{kind}', f'after {desc}: print(document) changed', dict(wit, now=common.pr(f)))
                return
        # at the end every public attribute of every model is read once (getters of rare shapes - a cost with its number and
        # currency as separate components, an emptied list - are otherwise only reached by luck)
        for p, m in list(walker.walk(f)):
            try:
                sweep(col, m)
            except (decimal.DecimalException, ZeroDivisionError):
                continue
            except Exception as e:
                col.count('nonclaim_calls_raising:' + type(e).__name__)
                continue
            col.ev()
            col.count('full_sweep_models')
            if walker.visible(store) != v0 or zero_width_ids(store) != z0 or common.pr(f) != t0:
                col.violation(f'read-changed-document:{type(m).__name__}', f'reading every public attribute of {p} ({type(m).__name__}) changed the document',
                              {'text': text, 'acl': acl, 'lf': lf, 'calls': log, 'now': common.store_text(store)})
                return
        if idx % 211 == 0:
            col.sample({'text': text, 'auto_claim_comments': acl, 'lf': lf, 'calls': log})
    finally:
        storemodel.set_load_factor(1000)
