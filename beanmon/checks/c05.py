"""C05 After any edit history the tree is still a valid syntax tree of its tokens (monitor M3)."""
from .. import common, gen, ops, walker, storemodel
from autobean_refactor import models
from autobean_refactor.models import base as mbase

CASES = {'quick': 4000, 'thorough': 60000}
SMALL_BLOCKS = 4      # runner: every 4th case keeps its stores in 2..10-token blocks
GATES = {
    'quick': {'multi_comment_handovers': 150, 'assigned_list_claims': 40, 'new_neighbour_claims': 60, 'cases_in_small_blocks': 50, 'evaluations': 15000, 'steps_changing_store': 7000, 'op_kinds_seen': 70, 'popped_nodes_checked': 100,
              'edits_through_inserted_nodes': 200, 'claim_steps': 800, 'token_steps': 800},
    'thorough': {'evaluations': 400000, 'op_kinds_seen': 80, 'popped_nodes_checked': 5000},
}
RULE = ('case = one accepted generated document (both attribution modes, half of them in 2..10-token blocks) and a history of 2..12 '
        '(thorough ..60) steps drawn online from the operation catalog (node/value properties, raw lists, filtered views, string views, '
        'meta mappings with the full index grid, pop-and-reinsert, deep-copy-and-insert) mixed with token value assignments, spacing '
        'setters and claim/unclaim/auto-claim calls; inserted donors stay in the tree and are edited again through the same objects. '
        'One evaluation = one M3 run (shadow walker over vars(): every model in the root store, first/last members and ordered, children '
        'nested, ordered, disjoint, every non-trivia token owned exactly once, every leaf a member, claimed comments owned once and '
        'unclaimed ones not at all) after a step, or on a node returned by pop() (which must be the whole of its own store and print '
        'the text it had). Non-trivial = the step changed the store; distinct = hash(text, op-log prefix).')
RULE += (' Also (rounds 8-11): in-place arithmetic with free right operands that need parentheses; a released comment claimed by a model created next to it afterwards (new_neighbour_claims_ops); nodes returned by mapping calls (pop, popitem) are checked like popped list elements; unreadable state while building the next operation is reported.')
ASSUMPTIONS = ['trivia = Whitespace, Newline, Comma, unclaimed BlockComment (calibrated on parsed documents)',
               'a step that raises ends the history (what a refused call leaves behind is C19\'s question)']

_corpus = None


def setup(col):
    global _corpus
    _corpus = ops.Corpus(col.seed, 70)


def run_case(col, r, idx):
    lf = r.choice([2, 3, 5, 10]) if idx % 2 == 0 else 1000
    storemodel.set_load_factor(lf)
    try:
        acl = idx % 4 != 3
        layout = idx % 5 == 0
        if layout:
            # comment-dense layouts, attribution by hand: claim calls are what moves placeholders around comments
            text, f = gen.accepted_layout(r, common.parser(), auto_claim_comments=acl)
        else:
            text, f = gen.accepted_document(r, common.parser(), gen.LF_ONLY if idx % 3 else gen.DEFAULT, n=r.randint(1, 6),
                                            auto_claim_comments=acl)
        if f is None:
            col.skip('document rejected by parse')
            return
        errs = walker.check_tree(f, whole_store=True)
        col.ev()
        if errs:
            col.violation(f'fresh-parse:{errs[0][0]}', errs[0][1], {'text': text, 'acl': acl})
            return
        g = ops.Generator(_corpus, r, index_mode='grid')
        mg = ops.MiscGenerator(r)
        nsteps = r.choice([2, 6, 12]) if col.tier == 'quick' else r.choice([4, 12, 30, 60])
        log = []
        inserted = set()
        pp = ops.pingpong_ops(f, r, 10) if layout and idx % 2 else []
        if not pp and idx % 5 == 3:
            pp = ops.assign_then_claim_ops(f, r)       # a list assigned as a whole, then asked to claim
            if pp:
                col.count('assigned_list_claims')
        if not pp and idx % 5 == 2:
            pp = ops.multi_comment_ops(f, r)       # several separate comment tokens in one gap, handed from list to list
            if pp:
                col.count('multi_comment_handovers')
        if not pp and idx % 5 == 4:
            pp = ops.new_neighbour_claims_ops(f, r)     # a released comment claimed by a model that was not there when it was first claimed
            if pp:
                col.count('new_neighbour_claims')
        pp.reverse()
        for s in range(nsteps + len(pp)):
            if pp:
                op = pp.pop()
                try:
                    op.apply()
                except ValueError:
                    continue
                log.append(op.desc)
                col.count('claim_steps')
                errs = walker.check_tree(f)
                col.ev()
                if errs:
                    col.violation(f'{errs[0][0]}:{op.kind}', f'after {op.desc}: {errs[0][1]}', {'text': text, 'lf': lf, 'acl': acl, 'log': log})
                    return
                continue
            op = (mg.claim_op(f) if layout and r.random() < 0.6 else mg.next_op(f, kinds=('token', 'spacing', 'claim', 'arith'))) if r.random() < (0.7 if layout else 0.3) else g.next_op(f)
            if op is None:
                continue
            if getattr(op, 'unreadable', None):
                col.ev()
                col.violation('document-unreadable-after-accepted-edits', f'after {log[-1] if log else "the parse"}: {op.unreadable}',
                              {'text': text, 'lf': lf, 'acl': acl, 'log': log})
                return
            pre_ids = walker.ids_texts(f.token_store)
            slot_text = {}
            if op.kind.endswith(':pop') or op.kind == 'meta:pop':
                for n in op.slot():
                    try:
                        slot_text[id(n)] = common.pr(n)
                    except Exception:
                        pass
            through_inserted = id(op.parent) in inserted or any(id(m) in inserted for _, m in walker.walk(op.parent))
            try:
                res = op.apply()
            except Exception as e:
                col.count('raised:' + ('expected' if op.expect else 'unexpected'))
                col.skip(f'step raised {type(e).__name__}; history ends (C19/C10 decide refusals)')
                return
            log.append(op.desc)
            col.count('kind:' + op.kind)
            if op.kind.startswith('claim:'):
                col.count('claim_steps')
            if op.kind.startswith('token:'):
                col.count('token_steps')
            if through_inserted:
                col.count('edits_through_inserted_nodes')
            for d in op.donors:
                for _, m in walker.walk(d):
                    inserted.add(id(m))
            wit = {'text': text, 'lf': lf, 'acl': acl, 'log': log}
            errs = walker.check_tree(f)
            col.ev()
            if walker.ids_texts(f.token_store) != pre_ids:
                col.count('steps_changing_store')
                col.nontrivial(text, tuple(log))
            if errs:
                wit['now'] = common.store_text(f.token_store)
                col.violation(f'{errs[0][0]}:{op.kind}', f'after {op.desc}: {errs[0][1]}', dict(wit, all=[e[1] for e in errs[:4]]))
                return
            if isinstance(res, tuple) and len(res) == 2 and op.kind.endswith(':popitem'):
                res = res[1]        # (key, value)
            if isinstance(res, mbase.RawModel) and (op.kind.endswith((':pop', ':popitem')) or op.kind == 'meta:pop'):
                col.count('popped:' + type(res).__name__)
                col.count('popped_nodes_checked')
                col.ev()
                perr = walker.check_tree(res, whole_store=True) if res.token_store is not None else [('popped-node-without-store', 'popped node has no store')]
                if perr:
                    col.violation(f'popped-node:{perr[0][0]}:{op.kind}', f'node returned by {op.desc}: {perr[0][1]}', wit)
                    return
                if id(res) in slot_text and common.pr(res) != slot_text[id(res)]:
                    col.violation(f'popped-node:text:{op.kind}', f'node returned by {op.desc} prints {common.pr(res)!r}, it printed {slot_text[id(res)]!r} in the document', wit)
                    return
        if idx % 397 == 0:
            col.sample({'text': text, 'lf': lf, 'auto_claim_comments': acl, 'ops': log})
    finally:
        storemodel.set_load_factor(1000)


def derive(counters):
    counters['op_kinds_seen'] = sum(1 for k in counters if k.startswith('kind:'))


def _suite_under_monitor(col):
    from .. import suiteworkload
    suiteworkload.run(col, ('M3',), 'tree-invariants-at-print')


THOROUGH_EXTRA = [('the repository test suite under the universal monitors', _suite_under_monitor)]
