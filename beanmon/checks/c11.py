"""C11 A deep copy is equal, exact and fully independent."""
import copy
import datetime
import decimal

from .. import valuestate, common, gen, ops, walker, storemodel
from autobean_refactor import models
from autobean_refactor.models import base as mbase
from autobean_refactor.models.internal.repeated import Repeated

CASES = {'quick': 1500, 'thorough': 40000}
GATES = {
    'quick': {'evaluations': 40000, 'copies_checked': 30000, 'independence_checks': 2500, 'edits_on_copy_changing_it': 1500,
              'edits_on_original_changing_it': 1500, 'copies_after_claim_history': 5000, 'copied_classes': 30, 'copies_with_claimed_comment': 2000, 'container_copies': 2000, 'arithmetic_steps_before_copy': 150,
              'models_with_custom_indent_by': 200, 'value_state_copies': 3000, 'plain_fields_compared': 100000},
    'thorough': {'evaluations': 1000000, 'copied_classes': 33},
}
RULE = ('case = one accepted generated document (both attribution modes; a third of the cases after a random claim/unclaim/auto-claim '
        'history that moves placeholders; half in 2..10-token blocks). Every model at every depth (trees, repeated nodes, tokens) is '
        'deep-copied: the copy must compare equal both ways, print exactly what the original spans, share no token object, be the '
        'whole of its own store, satisfy the tree invariants M3 and carry, node by node, the same plain data (claimed flags, comment indents, '
        'indent_by - a third of the documents get entries with a non-default indent_by first). Then for 2 sub-models per document: 3..10 catalog edits on the copy '
        '(the original document\'s token snapshot must not move), then a fresh copy is taken and 3..10 edits are applied to the original '
        '(the copy\'s snapshot must not move). One evaluation = one copy checked or one independence check per edit; non-trivial = the '
        'model has >=2 tokens, resp. the edit changed its own side; distinct = hash(text, path, op log).')
RULE += (' Also (round 9): in-place arithmetic histories before copying.')
ASSUMPTIONS = ['an edit that raises ends that edit sequence (C19 decides what refusals leave behind)']

_corpus = None
REFUSED = [False]


def setup(col):
    global _corpus
    _corpus = ops.Corpus(col.seed, 60)


def check_copy(col, text, path, m, orig_ids, wit):
    cname = type(m).__name__
    try:
        c = copy.deepcopy(m)
    except Exception as e:
        col.ev()
        col.violation(f'deepcopy-raised:{cname}', f'copy.deepcopy({path}) raised {type(e).__name__}: {e}', wit)
        return None
    col.ev()
    col.count('copies_checked')
    col.count('cls:' + cname)
    if isinstance(m, mbase.RawTokenModel):
        if c is m:
            col.violation(f'token-copy-is-same-object:{cname}', f'deepcopy of token {path} returned the token itself', wit)
        elif not (c == m and m == c) or c.raw_text != m.raw_text or type(c) is not type(m):
            col.violation(f'token-copy-differs:{cname}', f'deepcopy of token {path} is not equal / has other text', wit)
        elif hash(c) != hash(m):
            col.violation(f'token-copy-hash:{cname}', f'deepcopy of token {path} hashes differently', wit)
        elif isinstance(m, models.BlockComment) and (c.claimed != m.claimed or c.indent != m.indent or c.value != m.value):
            col.violation('comment-copy-state', f'copy of comment {path} lost claimed/indent/value', wit)
        return c
    mt = common.pr(m)
    if len(m.tokens) >= 2:
        col.nontrivial(text, path)
    if any(isinstance(t, models.BlockComment) and t.claimed for t in m.tokens):
        col.count('copies_with_claimed_comment')
    if not (c == m):
        col.violation(f'copy-not-equal:{cname}', f'deepcopy({path}) != original', wit)
        return c
    if not (m == c):
        col.violation(f'original-not-equal-copy:{cname}', f'original != deepcopy({path})', wit)
        return c
    ct = common.pr(c)
    if ct != mt:
        col.violation(f'copy-text-differs:{cname}', f'deepcopy({path}) prints {ct!r:.120}, the original spans {mt!r:.120}', wit)
        return c
    if c.token_store is m.token_store or any(id(t) in orig_ids for t in c.token_store):
        col.violation(f'copy-shares-token:{cname}', f'deepcopy({path}) shares a token object or the store with the original', wit)
        return c
    errs = walker.check_tree(c, whole_store=True)
    if errs:
        col.violation(f'copy-tree:{errs[0][0]}:{cname}', f'deepcopy({path}): {errs[0][1]}', wit)
        return c
    # plain data carried by the nodes (claimed flags, comment indents, indent_by of entries ...) node by node
    wm, wc = list(walker.walk(m, path)), list(walker.walk(c, path))
    if [p for p, _ in wm] != [p for p, _ in wc]:
        col.violation(f'copy-shape:{cname}', f'deepcopy({path}) has another tree shape', wit)
        return c
    for (p1, x), (_, y) in zip(wm, wc):
        sx, sy = _plain_state(x), _plain_state(y)
        col.count('plain_fields_compared', len(sx))
        if sx != sy:
            k = sorted(k for k in set(sx) | set(sy) if sx.get(k) != sy.get(k))[0]
            col.violation(f'copy-plain-state:{type(x).__name__}.{k}', f'deepcopy({path}): {p1}.{k} is {sy.get(k)!r} in the copy, {sx.get(k)!r} in the original', wit)
            return c
    return c


_PLAIN = (str, bool, int, float, type(None), decimal.Decimal, datetime.date)


def _plain_state(x):
    return {k: v for k, v in vars(x).items() if isinstance(v, _PLAIN)}


def edit_sequence(col, r, root, watched_store, label, wit, counter):
    g = ops.Generator(_corpus, r, index_mode='inrange')
    mg = ops.MiscGenerator(r)
    snap = walker.ids_texts(watched_store)
    for _ in range(r.randint(3, 10)):
        own = walker.ids_texts(root.token_store)
        op = mg.next_op(root, kinds=('token', 'claim')) if r.random() < 0.25 else g.next_op(root)
        if op is None:
            continue
        try:
            op.apply()
        except Exception:
            REFUSED[0] = True       # what a refused call leaves behind is C19's question; copies are not judged after one
            return True
        col.ev()
        col.count('independence_checks')
        try:
            changed = walker.ids_texts(root.token_store) != own
        except Exception:
            return True
        if changed:
            col.count(counter)
            col.nontrivial(wit['text'], wit['path'], label, op.desc)
        if walker.ids_texts(watched_store) != snap:
            col.violation(f'{label}:{op.kind}', f'{op.desc} on the {"copy" if label.startswith("edit-of-copy") else "original"} changed the other side',
                          dict(wit, op=op.desc))
            return False
    return True


def run_case(col, r, idx):
    lf = r.choice([2, 3, 5, 10]) if idx % 2 == 0 else 1000
    storemodel.set_load_factor(lf)
    try:
        acl = idx % 4 != 0
        P = common.parser()
        text, f = (gen.accepted_layout(r, P, auto_claim_comments=acl) if idx % 5 == 0 else
                   gen.accepted_document(r, P, gen.DEFAULT, n=r.randint(1, 5), auto_claim_comments=acl))
        if f is None:
            col.skip('document rejected by parse')
            return
        claimed_history = idx % 3 == 0
        hist = []
        if claimed_history:
            mg = ops.MiscGenerator(r)
            for _ in range(r.randint(3, 12)):
                op = mg.claim_op(f)
                if op is None:
                    continue
                try:
                    op.apply()
                    hist.append(op.desc)
                except ValueError:
                    hist.append(op.desc + ' -> refused')
            if walker.check_tree(f):
                col.skip('original tree invalid after the claim history (C05/C19 decide that)')
                return
        if idx % 3 == 2 and r.random() < 0.6:
            # in-place arithmetic on expressions of the document before anything is copied: the operators rebuild the expression nodes
            mg = ops.MiscGenerator(r)
            for _ in range(r.randint(1, 3)):
                op = mg.arith_op(f)
                if op is None:
                    break
                try:
                    op.apply()
                    hist.append(op.desc)
                    col.count('arithmetic_steps_before_copy')
                except (ValueError, ArithmeticError):
                    hist.append(op.desc + ' -> raised')
                    break
            if walker.check_tree(f):
                col.skip('original tree invalid after the arithmetic history (C05/C13 decide that)')
                return
        if idx % 3 == 1:
            # entries and postings with their own indent_by (docs/special/indents.md: assignable at any time)
            for _, m in walker.tree_models(f):
                if 'indent_by' in vars(m) and r.random() < 0.5:
                    m.indent_by = r.choice(['  ', '\t', '      ', ' '])
                    col.count('models_with_custom_indent_by')
        orig_ids = {id(t) for t in f.token_store}
        wit0 = {'text': text, 'acl': acl, 'lf': lf, 'claim_history': hist}
        nodes = list(walker.walk(f))
        for path, m in nodes:
            if claimed_history:
                col.count('copies_after_claim_history')
            check_copy(col, text, path, m, orig_ids, dict(wit0, path=path))
        # the copy says the same through the whole public read API (views, value properties, custom getters), caches primed or not
        tm = walker.tree_models(f)
        for path, m in [tm[0]] + r.sample(tm, min(3, len(tm))):
            primed = r.random() < 0.5
            if primed:
                valuestate.value_state(m)
            try:
                c = copy.deepcopy(m)
            except Exception:
                continue
            col.ev()
            col.count('value_state_copies')
            dv = valuestate.first_difference(valuestate.value_state(m), valuestate.value_state(c))
            if dv:
                col.violation(f'copy-value-state:{dv[1]}.{dv[2]}', f'deepcopy({path}): {dv[0]}.{dv[2]} reads {str(dv[4])[:120]} on the copy, '
                              f'{str(dv[3])[:120]} on the original (views read before copying: {primed})', dict(wit0, path=path))
                return
        # one deepcopy call over a container holding a model and one of its own descendants (a shared memo)
        trees = walker.tree_models(f)
        for _ in range(2):
            path, m = r.choice(trees)
            inner = [(p2, x) for p2, x in walker.walk(m, path) if x is not m]
            if not inner:
                continue
            p2, sub = r.choice(inner)
            col.ev()
            col.count('container_copies')
            wit = dict(wit0, path=path, inner=p2)
            try:
                got = copy.deepcopy({'outer': m, 'inner': [sub]})
            except Exception as e:
                col.violation(f'container-deepcopy-raised:{type(m).__name__}', f'copy.deepcopy of a container holding {path} and its descendant {p2} '
                              f'raised {type(e).__name__}: {e}', wit)
                return
            c1, c2 = got['outer'], got['inner'][0]
            col.nontrivial(text, 'container', path, p2)
            for orig, c, pth in ((m, c1, path), (sub, c2, p2)):
                if not (c == orig and orig == c) or common.pr(c) != common.pr(orig):
                    col.violation(f'container-copy-differs:{type(orig).__name__}', f'copy of {pth} taken inside a container is not equal / prints differently', wit)
                    return
                if isinstance(c, mbase.RawTreeModel):
                    errs = walker.check_tree(c, whole_store=True)
                    if errs or any(id(t) in orig_ids for t in c.token_store):
                        col.violation(f'container-copy-tree:{type(orig).__name__}', f'copy of {pth} taken inside a container: ' +
                                      (errs[0][1] if errs else 'shares a token with the original'), wit)
                        return
            if isinstance(c1, mbase.RawTreeModel) and isinstance(c2, mbase.RawTreeModel) and c1.token_store is c2.token_store:
                col.violation('container-copies-share-store', f'the copies of {path} and {p2} share one store', wit)
                return
        # independence
        REFUSED[0] = False
        subs = walker.tree_models(f)
        for _ in range(2):
            path, m = r.choice(subs)
            wit = dict(wit0, path=path)
            try:
                c = copy.deepcopy(m)
            except Exception as e:
                col.ev()
                if not REFUSED[0]:
                    errs = walker.check_tree(f)
                    col.violation(f'deepcopy-raised:{type(m).__name__}:after-edits', f'copy.deepcopy({path}) raised {type(e).__name__}: {e} after a '
                                  f'sequence of accepted edits' + (f' (the document tree: {errs[0][1]})' if errs else ''), wit)
                return
            if not edit_sequence(col, r, c, f.token_store, 'edit-of-copy-changed-original', wit, 'edits_on_copy_changing_it'):
                return
            try:
                c2 = copy.deepcopy(m)
            except Exception as e:
                col.ev()
                if not REFUSED[0]:
                    errs = walker.check_tree(f)
                    col.violation(f'deepcopy-raised:{type(m).__name__}:after-edits', f'copy.deepcopy({path}) raised {type(e).__name__}: {e} after a '
                                  f'sequence of accepted edits' + (f' (the document tree: {errs[0][1]})' if errs else ''), wit)
                return
            if not edit_sequence(col, r, f, c2.token_store, 'edit-of-original-changed-copy', wit, 'edits_on_original_changing_it'):
                return
            subs = walker.tree_models(f)
        if idx % 211 == 0:
            col.sample({'text': text, 'auto_claim_comments': acl, 'claim_history': hist, 'models_copied': len(nodes)})
    finally:
        storemodel.set_load_factor(1000)


def derive(counters):
    counters['copied_classes'] = sum(1 for k in counters if k.startswith('cls:'))
