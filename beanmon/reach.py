"""Reach evidence: which executable lines of a property's anchor files the workload executed (sys.monitoring, Python 3.12).
Every line location fires at most once (the callback returns DISABLE), so the overhead is negligible."""
import glob
import json
import os
import sys

from . import common

_hit = set()
_files = {}
TOOL = 3  # sys.monitoring.PROFILER_ID + 1 is free; COVERAGE_ID = 1 may be taken by coverage.py


def anchor_files(prop):
    out = []
    with open(os.path.join(common.VERIF_ROOT, 'properties.jsonl')) as f:
        for line in f:
            p = json.loads(line)
            if p['id'] == prop:
                for pat in p['anchors']['files']:
                    for path in glob.glob(os.path.join(os.path.abspath(common.REPO_ROOT), pat)):
                        if path.endswith('.py'):
                            out.append(os.path.realpath(path))
    return sorted(set(out))


def start(prop):
    mon = getattr(sys, 'monitoring', None)
    if mon is None or os.environ.get('VERIF_REACH') == '0':
        return False
    for p in anchor_files(prop):
        _files[p] = None
    if not _files:
        return False
    try:
        mon.use_tool_id(TOOL, 'beanmon-reach')
    except ValueError:
        return False

    def on_line(code, line):
        fn = code.co_filename
        if fn in _files:
            _hit.add((fn, line))
        return mon.DISABLE
    mon.register_callback(TOOL, mon.events.LINE, on_line)
    mon.set_events(TOOL, mon.events.LINE)
    return True


def stop():
    mon = getattr(sys, 'monitoring', None)
    if mon is None:
        return {}
    try:
        mon.set_events(TOOL, 0)
        mon.free_tool_id(TOOL)
    except Exception:
        pass
    out = {}
    for fn, line in _hit:
        out.setdefault(os.path.relpath(fn, os.path.abspath(common.REPO_ROOT)), []).append(line)
    return {k: sorted(v) for k, v in out.items()}


def executable_lines(path):
    """Line numbers that start a statement inside function bodies / class bodies of the file (from the compiled code objects)."""
    with open(path) as f:
        src = f.read()
    lines = set()
    todo = [compile(src, path, 'exec')]
    top = todo[0]
    while todo:
        co = todo.pop()
        if co is not top:
            for _, _, ln in co.co_lines():
                if ln is not None and ln != co.co_firstlineno:
                    lines.add(ln)
        for c in co.co_consts:
            if hasattr(c, 'co_lines'):
                todo.append(c)
    return lines
