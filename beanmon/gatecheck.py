"""Lists reach gates whose margin on the latest evidence is thin (observed < 1.6 x threshold): python -m beanmon.gatecheck [tier]"""
import importlib
import json
import sys

tier = sys.argv[1] if len(sys.argv) > 1 else 'quick'
for i in range(1, 21):
    p = f'C{i:02d}'
    mod = importlib.import_module(f'beanmon.checks.{p.lower()}')
    try:
        ev = json.load(open(f'/verif/evidence/{p}.json'))
    except Exception:
        continue
    if ev['tier'] != tier:
        continue
    c = ev['coverage']['counters']
    for name, minimum in getattr(mod, 'GATES', {}).get(tier, {}).items():
        got = ev['coverage']['evaluations'] if name == 'evaluations' else c.get(name, 0)
        if got < 1.6 * minimum:
            print(f'{p} {name}: observed {got} threshold {minimum} ratio {got / max(minimum, 1):.2f}')
