import argparse
import os
import sys
from . import runner


def main() -> int:
    ap = argparse.ArgumentParser(prog='check')
    ap.add_argument('property')
    ap.add_argument('--tier', choices=['quick', 'thorough'], default=os.environ.get('VERIF_TIER') or 'quick')
    ap.add_argument('--seed', type=int, default=int(os.environ.get('VERIF_SEED') or 0))
    ap.add_argument('--replay')
    a = ap.parse_args()
    return runner.drive(a.property.upper(), a.tier, a.seed, a.replay)


if __name__ == '__main__':
    sys.exit(main())
