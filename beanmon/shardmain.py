import sys
from . import runner

if __name__ == '__main__':
    prop, tier, seed, shard, nshards, out = sys.argv[1:7]
    only = (sys.argv[7], int(sys.argv[8])) if len(sys.argv) > 8 else None
    runner.run_shard(prop, tier, int(seed), int(shard), int(nshards), out, only)
