"""Runs the repository's own test suite under the universal monitors (beanmon.pytest_plugin) and folds what they saw into a check."""
import glob
import json
import os
import shutil
import subprocess
import sys
import tempfile

from . import common


def run(col, kinds, label):
    """kinds: prefixes of finding kinds that this property judges ('M1', 'M3')."""
    out = tempfile.mkdtemp(prefix='beanmon-suite-')
    try:
        env = dict(os.environ, PYTHONPATH=common.VERIF_ROOT + os.pathsep + os.path.abspath(common.REPO_ROOT), BEANMON_PLUGIN_OUT=out,
                   PYTHONDONTWRITEBYTECODE='1')
        env[common.GUARD] = '1'
        cmd = [sys.executable, '-m', 'pytest', '-q', '-p', 'no:cacheprovider', '-p', 'beanmon.pytest_plugin', '-n', '8', '--benchmark-disable',
               '--timeout=900', 'autobean_refactor']
        try:
            p = subprocess.run(cmd, cwd=os.path.abspath(common.REPO_ROOT), env=env, capture_output=True, text=True, timeout=2400)
        except subprocess.TimeoutExpired:
            col.skip('suite-under-monitor workload timed out (inconclusive part, not a verdict)')
            return
        stats = {}
        findings = []
        for f in glob.glob(os.path.join(out, 'plugin-*.json')):
            d = json.load(open(f))
            for k, v in d['stats'].items():
                stats[k] = stats.get(k, 0) + v
            findings.extend(d['findings'])
        tail = p.stdout.strip().splitlines()[-1] if p.stdout.strip() else ''
        col.count(f'suite_under_monitor:{label}:tests_line:' + tail[:60].replace(' ', '_'))
        for k, v in stats.items():
            col.count('suite_under_monitor:' + k, v)
        n = stats.get('m1_comparisons', 0) if 'M1' in kinds else stats.get('m3_checks_at_print', 0)
        col.ev(n)
        if n:
            col.nontrivial('suite-under-monitor', label, n)
        for f in findings:
            if any(f['kind'].startswith(k) for k in kinds):
                col.violation('suite-under-monitor:' + f['kind'], f'while the repository test {f["test"]} ran: {f["msg"]}', f)
            elif f['kind'] == 'harness':
                col.skip('suite-under-monitor: checker fault ' + f['msg'][:80])
    finally:
        shutil.rmtree(out, ignore_errors=True)
