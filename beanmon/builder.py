"""Name-keyed argument generators for every from_value / from_children parameter of every model class (C15, C18)."""
import datetime
import decimal
import inspect
import typing

from . import common, values
from autobean_refactor import models
from autobean_refactor.models import base as mbase

D = decimal.Decimal

ENTRY_CLASSES = ['Balance', 'Close', 'Commodity', 'Custom', 'Document', 'Event', 'Note', 'Open', 'Pad', 'Price', 'Query', 'Transaction']
CLASSES_FROM_VALUE = sorted(c.__name__ for c in models.TREE_MODELS.values() if hasattr(c, 'from_value'))
CLASSES_FROM_CHILDREN = sorted(c.__name__ for c in models.TREE_MODELS.values() if hasattr(c, 'from_children'))


def S(r):
    return r.choice(['foo', 'a "q" b', 'back\\slash', 'multi\nline', '', 'ünï', 'tab\there', '; not a comment', 'x' * 30])


def ACC(r):
    return r.choice(values.ACCOUNTS)


def CUR(r):
    return r.choice(values.CURRENCIES)


def NUM(r):
    return r.choice([D('1'), D('-2.50'), D('0'), D('1234567.89'), D('-0.001'), D('42'), D('100.00'),
                     # values whose str() is in exponent form, and one with more digits than the decimal context keeps
                     D('1E+2'), D('-2.5E+3'), D('1E-7'), D('0E-8'), D('-0.00000012'), D('123456789012345678901234567890.123456789')])


def POS(r):
    return r.choice([D('1'), D('2.50'), D('0.01'), D('1234567.89'), D('0'), D('0.00'), D('12E+1'), D('9.0E-11'), D('0E-7'),
                     D('0.1234567890123456789012345678901')])


def DATE(r):
    return r.choice([datetime.date(2000, 1, 1), datetime.date(1999, 12, 31), datetime.date(2024, 2, 29), datetime.date(999, 1, 2), values.rdate(r)])


def COMMENT(r):
    return r.choice(['c', 'two\nlines', '', ' lead', 'x;y', 'a\n\nb', 'ü', 'cr\r\nlf', 'was: open ; closed since\nsecond; line', ';;'])


def ICOMMENT(r):
    # (blanks at either end and a leading semicolon are part of the value)
    return r.choice(['c', '', 'x;y', 'a  b', 'ü "q', 'ends with a blank ', ' starts with one', '  ', 'tab\t', ';marker', ';'])


def KEY(r):
    return r.choice(['aa', 'b-b', 'c_c', 'dD9', 'key'])


def METAV(r):
    return r.choice([S(r), DATE(r), NUM(r), True, False, models.Account.from_value(ACC(r)), models.Currency.from_value(CUR(r)),
                     models.Tag.from_value('tg'), models.Null.from_default(), models.Amount.from_value(NUM(r), CUR(r)), None,
                     models.EscapedString.from_value('raw'), models.NumberExpr.from_value(D(5)), models.Bool.from_value(True),
                     models.Date.from_value(datetime.date(2001, 1, 1))])


def META(r):
    return {k: METAV(r) for k in r.sample(['aa', 'b-b', 'c_c', 'dD9'], r.randint(0, 3))}


def COST(r):
    per, tot, cur = r.choice([None, POS(r)]), r.choice([None, POS(r)]), r.choice([None, CUR(r)])
    if per is not None and tot is not None and cur is None:
        cur = 'USD'
    return models.CostSpec.from_value(per, tot, cur, r.choice([None, DATE(r)]), r.choice([None, S(r)]), r.choice([False, True]))


def PRICE(r):
    return r.choice([models.UnitPrice, models.TotalPrice]).from_value(r.choice([None, POS(r)]), r.choice([None, CUR(r)]))


def _EXPR(r):
    return common.parser().parse(r.choice(['-1 + 2', '3 - -4', '-(1)', '+5 * 2', '2 * -3', '(1 + 2)']), models.NumberExpr)


def CUSTOMV(r):
    if r.random() < 0.25:
        return r.choice([_EXPR(r), NUM(r), models.Amount.from_children(_EXPR(r), models.Currency.from_value('USD'))])
    return r.choice([S(r), DATE(r), True, False, NUM(r), NUM(r), models.Amount.from_value(NUM(r), CUR(r)), models.Account.from_value(ACC(r)),
                     models.NumberExpr.from_value(NUM(r)), models.EscapedString.from_value('raw')])


def POSTING(r, indent='    '):
    kw = {}
    if r.random() < .5:
        kw['flag'] = r.choice('*!')
    if r.random() < .4:
        kw['cost'] = COST(r)
    if r.random() < .4:
        kw['price'] = PRICE(r)
    if r.random() < .4:
        kw['inline_comment'] = ICOMMENT(r)
    if r.random() < .4:
        kw['meta'] = META(r)
    if r.random() < .3:
        kw['leading_comment'] = COMMENT(r)
    if r.random() < .3:
        kw['trailing_comment'] = COMMENT(r)
    kw['indent'] = indent
    n = r.choice([None, NUM(r)])
    c = r.choice([None, CUR(r)])
    return models.Posting.from_value(ACC(r), n, c, **kw)


def DIRECTIVE(r):
    k = r.choice(['Open', 'Close', 'Balance', 'Pad', 'Commodity', 'Event', 'Query', 'Price', 'Note', 'Document', 'Custom', 'Transaction',
                  'Option', 'Include', 'Plugin', 'Pushtag', 'Poptag', 'Pushmeta', 'Popmeta'])
    return build_from_value(getattr(models, k), r, None)[0]


REQUIRED_OPTIONAL = {  # required positional parameters whose type is Optional[...]
    ('Posting', 'number'), ('Posting', 'currency'), ('Balance', 'tolerance'), ('Transaction', 'payee'), ('Transaction', 'narration'),
    ('CostSpec', 'number_per'), ('CostSpec', 'number_total'), ('CostSpec', 'currency'), ('MetaItem', 'value'), ('Pushmeta', 'value'),
    ('UnitPrice', 'number'), ('UnitPrice', 'currency'), ('TotalPrice', 'number'), ('TotalPrice', 'currency'),
    ('CompoundAmount', 'number_per'), ('CompoundAmount', 'number_total'),
}


def value_arg(cname, pname, r, ctx):
    """An in-domain from_value argument for parameter `pname` of class `cname`."""
    if pname == 'date':
        return DATE(r)
    if pname in ('account', 'source_account'):
        return ACC(r)
    if pname == 'currency':
        return CUR(r)
    if pname in ('number', 'value') and cname in ('Amount', 'Posting', 'Balance', 'NumberExpr'):
        return NUM(r)
    if pname in ('number', 'number_per', 'number_total', 'tolerance'):
        return POS(r)
    if pname in ('leading_comment', 'trailing_comment'):
        return COMMENT(r)
    if pname == 'inline_comment':
        return ICOMMENT(r)
    if pname == 'meta':
        return META(r)
    if pname == 'indent_by':
        return r.choice(['  ', '\t', '    ', '        '])
    if pname == 'indent':
        return r.choice(['  ', '\t', '      ', '    '])
    if pname == 'key' and cname in ('Pushmeta', 'Popmeta', 'MetaItem'):
        return KEY(r)
    if pname == 'value' and cname in ('MetaItem', 'Pushmeta'):
        return METAV(r)
    if pname == 'tag':
        return r.choice(['tag', 'a-b_c/d.e'])
    if pname in ('tags', 'links'):
        return [f'{pname[0]}{i}' for i in range(r.choice([0, 1, 2, 3]))]
    if pname == 'currencies':
        return [CUR(r) for _ in range(r.choice([0, 1, 2, 3]))]
    if pname == 'values':
        return [CUSTOMV(r) for _ in range(r.choice([0, 1, 2, 4]))]
    if pname == 'postings':
        return [POSTING(r, indent=ctx.get('indent_by', '    ')) for _ in range(r.choice([0, 1, 2, 3]))]
    if pname == 'flag':
        return r.choice(['*', '!', 'P']) if cname == 'Transaction' else r.choice(list('*!&#?%PSTCURM'))
    if pname == 'cost':
        return COST(r)
    if pname == 'price':
        return PRICE(r)
    if pname == 'amount':
        return models.Amount.from_value(NUM(r), CUR(r))
    if pname == 'directives':
        return [DIRECTIVE(r) for _ in range(r.choice([0, 1, 2, 3]))]
    if pname == 'merge':
        return r.choice([True, False])
    if pname == 'booking':
        return r.choice(['STRICT', 'NONE', 'FIFO'])
    if pname in ('type', 'description', 'name', 'query_string', 'filename', 'comment', 'value', 'key', 'config', 'label', 'narration', 'payee'):
        return S(r)
    return _UNCOVERED


_UNCOVERED = object()
uncovered_params = set()


def _signature(cls, fn):
    return inspect.signature(getattr(cls, fn))


def optional_params(cls, fn):
    sig = _signature(cls, fn)
    return [p.name for p in sig.parameters.values() if p.default is not p.empty]


def build_from_value(cls, r, mask):
    """-> (model, args) ; mask: None = random subset, else bitmask over optional_params(cls, 'from_value')."""
    cname = cls.__name__
    sig = _signature(cls, 'from_value')
    opts = optional_params(cls, 'from_value')
    args = {}
    ctx = {}
    if 'indent_by' in opts and (mask is None and r.random() < 0.3 or mask is not None and mask >> opts.index('indent_by') & 1):
        ctx['indent_by'] = value_arg(cname, 'indent_by', r, ctx)
    for p in sig.parameters.values():
        if p.default is not p.empty:
            i = opts.index(p.name)
            if p.name == 'indent_by':
                if 'indent_by' in ctx:
                    args[p.name] = ctx['indent_by']
                continue
            take = (r.random() < 0.45) if mask is None else bool(mask >> i & 1)
            if not take:
                continue
        elif (cname, p.name) in REQUIRED_OPTIONAL and r.random() < 0.4:
            args[p.name] = None
            continue
        v = value_arg(cname, p.name, r, ctx)
        if v is _UNCOVERED:
            uncovered_params.add(f'{cname}.from_value({p.name})')
            if p.default is not p.empty:
                continue
            raise LookupError(f'no generator for {cname}.from_value({p.name})')
        args[p.name] = v
    if cname == 'CostSpec' and args.get('number_per') is not None and args.get('number_total') is not None and args.get('currency') is None:
        args['currency'] = 'USD'     # the documented rejection is C09's subject
    return cls.from_value(**args), args


# --- from_children ------------------------------------------------------------------------------------------------------

def _tok(cls, r):
    v = values.value_for(r, cls, hostile=False)
    return cls.from_value(v)


def child_arg(cname, pname, hint, r, ctx):
    indent = ctx.get('indent', '')
    inner_indent = ctx.get('inner_indent', '    ')
    if pname in ('leading_comment', 'trailing_comment'):
        return models.BlockComment.from_value(COMMENT(r), indent=indent)
    if pname == 'inline_comment':
        return models.InlineComment.from_value(ICOMMENT(r))
    if pname == 'indent':
        return models.Indent.from_value(indent or '    ')
    if pname == 'indent_by':
        return ctx['indent_by']
    if pname == 'date':
        return models.Date.from_value(DATE(r))
    if pname in ('account', 'source_account'):
        return models.Account.from_value(ACC(r))
    if pname == 'currency':
        return models.Currency.from_value(CUR(r))
    if pname in ('number', 'number_per', 'number_total'):
        return models.NumberExpr.from_value(NUM(r) if cname in ('Amount', 'Posting', 'Balance') else POS(r))
    if pname == 'tolerance':
        return models.Tolerance.from_value(POS(r))
    if pname == 'meta':
        out = []
        for k in r.sample(['aa', 'b-b', 'c_c'], r.randint(0, 3)):
            if r.random() < 0.3:
                out.append(models.BlockComment.from_value(COMMENT(r), indent=inner_indent))
            out.append(models.MetaItem.from_value(k, METAV(r), indent=inner_indent))
        return out
    if pname == 'key':
        return models.MetaKey.from_value(KEY(r)) if cname in ('Pushmeta', 'Popmeta', 'MetaItem') else models.EscapedString.from_value(S(r))
    if pname == 'value' and cname in ('MetaItem', 'Pushmeta'):
        v = METAV(r)
        from autobean_refactor.models import meta_value_internal
        return meta_value_internal.from_value(v)
    if pname == 'tag':
        return models.Tag.from_value('tag')
    if pname == 'tags_links':
        return [r.choice([models.Tag, models.Link]).from_value(f'x{i}') for i in range(r.choice([0, 1, 2, 3]))]
    if pname == 'currencies':
        return [models.Currency.from_value(CUR(r)) for _ in range(r.choice([0, 1, 2, 3]))]
    if pname == 'values':
        import importlib
        custom = importlib.import_module('autobean_refactor.models.custom')   # (models.custom the attribute is the generated module)
        return [custom._unsimplify_value(CUSTOMV(r)) for _ in range(r.choice([0, 1, 2, 4]))]
    if pname == 'postings':
        out = []
        for _ in range(r.choice([0, 1, 2, 3])):
            if r.random() < 0.25 and cname == 'Transaction':
                out.append(models.BlockComment.from_value(COMMENT(r), indent=inner_indent))
            out.append(POSTING(r, indent=inner_indent))
        return out
    if pname == 'flag':
        return models.TransactionFlag.from_value(r.choice(['*', '!', 'P'])) if cname == 'Transaction' else models.PostingFlag.from_value(r.choice('*!&#?%'))
    if pname == 'cost':
        return COST(r) if cname == 'Posting' else r.choice([models.UnitCost, models.TotalCost]).from_children(_components(r))
    if pname == 'price':
        return PRICE(r)
    if pname == 'amount':
        return models.Amount.from_value(NUM(r), CUR(r))
    if pname == 'directives':
        out = []
        for _ in range(r.choice([0, 1, 2, 3])):
            if r.random() < 0.3:
                out.append(models.BlockComment.from_value(COMMENT(r)))
            out.append(DIRECTIVE(r))
        return out
    if pname == 'booking':
        return models.EscapedString.from_value('STRICT')
    if pname in ('type', 'description', 'name', 'query_string', 'filename', 'comment', 'value', 'config', 'label', 'narration', 'payee'):
        return models.EscapedString.from_value(S(r))
    if pname == 'ignored':
        return models.Ignored.from_raw_text(r.choice(['* heading', ': x', '# y ; z', '!']))
    if pname == 'components':
        return _components(r)
    if pname == 'number_add_expr':
        return models.NumberExpr.from_value(NUM(r)).raw_number_add_expr
    if pname == 'inner_expr':
        return models.NumberExpr.from_value(NUM(r)).raw_number_add_expr
    if pname == 'unary_op':
        from autobean_refactor.models.generated.number_unary_expr import UnaryOp
        return UnaryOp.from_raw_text(r.choice('+-'))
    if pname == 'operand':
        return models.Number.from_value(POS(r))
    if pname == 'operands':
        n = r.choice([1, 2, 3])
        if cname == 'NumberAddExpr':
            return tuple(models.NumberExpr.from_value(POS(r)).raw_number_add_expr.raw_operands[0] for _ in range(n))
        return tuple(models.Number.from_value(POS(r)) for _ in range(n))
    if pname == 'ops':
        n = ctx.get('n_operands', 1) - 1
        if cname == 'NumberAddExpr':
            from autobean_refactor.models.number_add_expr import AddOp
            return tuple(AddOp.from_raw_text(r.choice('+-')) for _ in range(n))
        from autobean_refactor.models.number_mul_expr import MulOp
        return tuple(MulOp.from_raw_text(r.choice('*/')) for _ in range(n))
    return _UNCOVERED


def _components(r):
    pool = [lambda: models.Date.from_value(DATE(r)), lambda: models.Asterisk.from_default(), lambda: models.EscapedString.from_value(S(r)),
            lambda: models.Currency.from_value(CUR(r)), lambda: models.NumberExpr.from_value(POS(r)),
            lambda: models.Amount.from_value(POS(r), CUR(r)),
            lambda: models.CompoundAmount.from_value(r.choice([None, POS(r)]), r.choice([None, POS(r)]), CUR(r))]
    return [f() for f in r.sample(pool, r.randint(0, 3))]


def build_from_children(cls, r, mask):
    cname = cls.__name__
    sig = _signature(cls, 'from_children')
    opts = optional_params(cls, 'from_children')
    hints = {}
    args = {}
    ctx = {'indent_by': '    '}
    if cname in ('Posting', 'MetaItem'):
        ctx['indent'] = r.choice(['  ', '    ', '\t'])
        ctx['inner_indent'] = ctx['indent'] + '  '
    if 'indent_by' in opts:
        i = opts.index('indent_by')
        if (mask is None and r.random() < 0.3) or (mask is not None and mask >> i & 1):
            ctx['indent_by'] = r.choice(['  ', '\t', '        '])
            args['indent_by'] = ctx['indent_by']
        ctx['inner_indent'] = ctx.get('indent', '') + ctx['indent_by']
    for p in sig.parameters.values():
        if p.name == 'indent_by':
            continue
        if p.default is not p.empty:
            i = opts.index(p.name)
            take = (r.random() < 0.45) if mask is None else bool(mask >> i & 1)
            if not take:
                continue
        elif (cname, p.name) in REQUIRED_OPTIONAL and r.random() < 0.4:
            args[p.name] = None
            continue
        v = child_arg(cname, p.name, hints.get(p.name), r, ctx)
        if v is _UNCOVERED:
            uncovered_params.add(f'{cname}.from_children({p.name})')
            if p.default is not p.empty:
                continue
            raise LookupError(f'no generator for {cname}.from_children({p.name})')
        if p.name == 'operands':
            ctx['n_operands'] = len(v)
        args[p.name] = v
    if cname == 'CompoundAmount' and False:
        pass
    return cls.from_children(**args), args
