"""Shadow tree walker, tree invariants (M3) and structural digest.

Children are enumerated from instance state (vars()) only: nothing here relies on `tokens`, `first_token`
caches, `iter_children_formatted` or `__eq__`, which are themselves under test.
"""
import re

from . import common  # noqa: F401  (sets sys.path)
from autobean_refactor import models
from autobean_refactor.models import base as mbase
from autobean_refactor.models.internal.placeholder import Placeholder
from autobean_refactor.models.internal.repeated import Repeated

ZERO_WIDTH = (models.Eol, models.DedentMark, Placeholder)
SPACING = (models.Whitespace, models.Newline)
TRIVIA = (models.Whitespace, models.Newline, models.Comma)


def children(m):
    """Structural children in declaration order, from instance state."""
    out = []
    if isinstance(m, mbase.RawTokenModel):
        return out
    for k, v in vars(m).items():
        if k == '_token_store':
            continue
        if isinstance(v, mbase.RawModel):
            out.append((k, v))
        elif isinstance(v, (list, tuple)):
            for i, x in enumerate(v):
                if isinstance(x, mbase.RawModel):
                    out.append((f'{k}[{i}]', x))
    return out


def walk(m, path='$'):
    yield path, m
    for k, c in children(m):
        yield from walk(c, path + '.' + k)


def tree_models(root, include_repeated=False):
    return [(p, m) for p, m in walk(root)
            if isinstance(m, mbase.RawTreeModel) and (include_repeated or not isinstance(m, Repeated))]


def is_trivia(t) -> bool:
    return isinstance(t, TRIVIA) or (isinstance(t, models.BlockComment) and not t.claimed)


def check_tree(root, store=None, whole_store=False):
    """M3. Returns a list of (kind, message); empty = invariants hold."""
    errs = []
    store = store if store is not None else root.token_store
    if store is None:
        return [('no-store', 'root has no token store')]
    try:
        toks = list(store)
    except Exception as e:  # store itself is broken: C07's business, but the tree cannot be valid either
        return [('store-iter-exc', f'{type(e).__name__}: {e}')]
    idx = {id(t): i for i, t in enumerate(toks)}
    if len(idx) != len(toks):
        seen = set()
        dup = next(t for t in toks if id(t) in seen or seen.add(id(t)))
        return [('token-twice-in-store', f'the token object {dup!r} sits at {sum(1 for t in toks if t is dup)} positions of the store '
                                         f'(a token has one place and one handle)')]
    owners: dict[int, list[str]] = {}

    def span(m, path):
        if isinstance(m, mbase.RawTokenModel):
            if id(m) not in idx:
                errs.append(('leaf-not-in-store', f'{path}: leaf token {m!r} is not in the root store'))
                return None
            owners.setdefault(id(m), []).append(path)
            return idx[id(m)], idx[id(m)]
        if m.token_store is not store:
            errs.append(('wrong-store', f'{path}: {type(m).__name__} lives in another store'))
        try:
            ft, lt = m.first_token, m.last_token
        except Exception as e:
            errs.append(('first-last-exc', f'{path}: {type(e).__name__}: {e}'))
            ft = lt = None
        cs = []
        for k, c in children(m):
            s = span(c, path + '.' + k)
            if s:
                cs.append((s, k))
        if ft is None or id(ft) not in idx or id(lt) not in idx:
            if ft is not None:
                errs.append(('first-last-not-in-store', f'{path}: first/last token not in store'))
            return None
        a, b = idx[id(ft)], idx[id(lt)]
        if a > b:
            errs.append(('first-after-last', f'{path}: first token after last token'))
        prev = a - 1
        for (x, y), k in sorted(cs):
            if x < a or y > b:
                errs.append(('child-outside-parent', f'{path}.{k}: child span {(x, y)} outside parent {(a, b)}'))
            if x <= prev and prev >= a:
                errs.append(('children-overlap', f'{path}.{k}: overlaps or precedes its previous sibling'))
            prev = y
        return a, b

    rs = span(root, '$')
    if whole_store and rs is not None and toks:
        if rs != (0, len(toks) - 1):
            errs.append(('not-whole-store', f'root spans {rs} of a store of {len(toks)} tokens'))
    for i, t in enumerate(toks):
        n = len(owners.get(id(t), []))
        if is_trivia(t):
            if n:
                if isinstance(t, models.BlockComment):
                    errs.append(('unclaimed-comment-owned', f'unclaimed comment {t!r} owned by {owners[id(t)]}'))
                else:
                    errs.append(('trivia-owned', f'trivia token {t!r} owned by {owners[id(t)]}'))
        elif n != 1:
            if isinstance(t, models.BlockComment):
                errs.append(('claimed-comment-owners', f'claimed comment {i} {t!r} owned {n} times {owners.get(id(t))}'))
            else:
                errs.append(('token-owners', f'token {i} {t!r} owned {n} times {owners.get(id(t))}'))
    return errs


_NL = re.compile(r'\r*\n')


def comment_lines(store_or_tokens):
    out = []
    for t in store_or_tokens:
        if isinstance(t, models.BlockComment):
            out.extend(_NL.split(t.raw_text))
    return out


def digest(m, comments='drop'):
    """Structural digest. comments: 'drop' | 'keep'."""
    if isinstance(m, mbase.RawTokenModel):
        if isinstance(m, ZERO_WIDTH):
            return None
        if isinstance(m, models.BlockComment):
            return None if comments == 'drop' else ('BC', m.raw_text)
        if isinstance(m, models.InlineComment):
            return ('IC', m.raw_text.rstrip(' \t'))
        if isinstance(m, models.Ignored):
            return ('Ignored', m.raw_text.rstrip(' \t\r'))
        return (type(m).__name__, m.raw_text)
    out = []
    for k, c in children(m):
        d = digest(c, comments)
        if d is not None:
            out.append((k.split('[')[0], d))
    return (type(m).__name__, tuple(out))


def snapshot(store):
    return [(id(t), t.raw_text, t) for t in store]


def ids_texts(store):
    return [(id(t), t.raw_text) for t in store]


def visible(store):
    return [(id(t), t.raw_text) for t in store if t.raw_text]
