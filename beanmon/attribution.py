"""Attribution table for block comments (C14), derived from the visible token stream and the model spans only - never from
the claim code (DESIGN.md A.4)."""
import collections

from . import common, walker
from autobean_refactor import models
from autobean_refactor.models import base as mbase
from autobean_refactor.models.internal.surrounding_comments import SurroundingCommentsMixin


def owners(root):
    """{id(comment): [(kind, owner path)]} from the shadow walker."""
    own = collections.defaultdict(list)
    for path, m in walker.walk(root):
        if isinstance(m, models.BlockComment):
            parent, _, leaf = path.rpartition('.')
            kind = 'leading' if leaf == '_leading_comment' else 'trailing' if leaf == '_trailing_comment' else 'standalone'
            own[id(m)].append((kind, parent))
    return own


def ownership_map(root):
    """Ordinal of each comment in the store -> tuple of owners (used for idempotence / parse-vs-later comparisons)."""
    own = owners(root)
    return [tuple(own.get(id(t), ())) for t in root.token_store if isinstance(t, models.BlockComment)]


def expected(root):
    """-> ({id(comment): (kind, set of acceptable owner paths | None, note)}, visible tokens)"""
    toks = [t for t in root.token_store if t.raw_text]
    starts = {}
    ends = collections.defaultdict(list)
    span_end = collections.defaultdict(list)
    interior = {}
    exact_indent = {}
    for path, m in walker.walk(root):
        if isinstance(m, SurroundingCommentsMixin):
            d = vars(m)
            lc, tc = d.get('_leading_comment'), d.get('_trailing_comment')
            try:
                mt = [t for t in m.tokens if t.raw_text and t is not lc and t is not tc]
            except Exception:
                continue
            # the model proper: without the comments it owns as leading/trailing, without the spacing next to them,
            # and without comments inside its span (standalone entries of its lists do not end the model's own text)
            body = [t for t in mt if not isinstance(t, models.BlockComment)]
            while body and isinstance(body[0], walker.SPACING):
                body.pop(0)
            while body and isinstance(body[-1], walker.SPACING):
                body.pop()
            if not body:
                continue
            ind = '_indent' in d
            starts[id(body[0])] = (path, ind)
            ends[id(body[-1])].append((path, ind))
            exact_indent[path] = d['_indent'].raw_text if ind and isinstance(d.get('_indent'), models.Indent) else ''
            # the model's extent including comments inside it (e.g. indented comments that close an entry's block)
            ext = list(mt)
            while ext and isinstance(ext[-1], walker.SPACING):
                ext.pop()
            if ext:
                span_end[id(ext[-1])].append((path, ind))
                interior[path] = {id(t) for t in ext}
    exp = {}
    for i, t in enumerate(toks):
        if not isinstance(t, models.BlockComment):
            continue
        cind = bool(t.indent)
        res = None
        j = i + 1
        if j + 1 < len(toks) and isinstance(toks[j], models.Newline) and toks[j].raw_text.count('\n') == 1:
            nx = toks[j + 1]
            if id(nx) in starts:
                if starts[id(nx)][1] == cind:
                    res = ('leading', {starts[id(nx)][0]}, '')
                else:
                    res = ('MIXED', {starts[id(nx)][0]}, 'model below has the other indentation class')
        if res is None or res[0] == 'MIXED':
            j = i - 1
            ambiguous = False
            while True:
                if not (j >= 0 and isinstance(toks[j], models.Newline) and toks[j].raw_text.count('\n') == 1):
                    j = -1
                    break
                j -= 1
                while j >= 0 and isinstance(toks[j], models.Whitespace):
                    j -= 1
                if j >= 0 and isinstance(toks[j], models.BlockComment) and bool(toks[j].indent) and not cind:
                    # an unindented comment right below indented comments that close an entry's indented block: the documentation
                    # does not say whether the entry "ends" before or after those comments, so both readings are accepted
                    ambiguous = True
                    j -= 1
                    continue
                break
            if j >= 0 and id(toks[j]) in ends:
                c = {pa for pa, ind in ends[id(toks[j])] if ind == cind}
                if len(c) > 1:
                    # a posting and its last meta item end on the same line. Where the comment stands exactly at the posting's
                    # indentation and the meta item is indented deeper, documentation ("same indentation") and indentation class
                    # agree: it is the posting's. (A comment at the meta item's depth stays open: the two readings differ there.)
                    outer = min(c, key=len)
                    if all(pa.startswith(outer) for pa in c) and exact_indent.get(outer) == t.indent and \
                            all(exact_indent.get(pa) != t.indent for pa in c if pa != outer):
                        c = {outer}
                if c:
                    res = ('trailing-or-standalone' if ambiguous else 'trailing', c, '')
                elif res is None and not ambiguous:
                    res = ('MIXED', {pa for pa, ind in ends[id(toks[j])]}, 'model above has the other indentation class')
        if res is not None and res[0] == 'MIXED':
            res = ('standalone', None, res[2])
        res = res or ('standalone', None, '')
        # readings the documentation leaves open (each needs the same indentation class):
        alts = []
        if res[0] in ('trailing', 'trailing-or-standalone'):
            # the comment sits between an entry's header line and that entry's own indented block: it is *inside* the model
            if any(id(t) in interior.get(pa, ()) for pa in res[1]):
                alts.append(('standalone', None))
        if res[0] in ('standalone', 'trailing-or-standalone'):
            # the comment immediately follows the end of a model's extent (which includes the comments inside the model)
            j = i - 1
            if j >= 0 and isinstance(toks[j], models.Newline) and toks[j].raw_text.count('\n') == 1:
                j -= 1
                while j >= 0 and isinstance(toks[j], models.Whitespace):
                    j -= 1
                if j >= 0:
                    c = {pa for pa, ind in span_end.get(id(toks[j]), ()) if ind == cind}
                    if c:
                        alts.append(('trailing', c))
        exp[id(t)] = (res[0], res[1], res[2], alts)
    return exp, toks


def agrees(e, kind, parent):
    """Does the actual owner (kind, parent path) agree with the expectation e (or one of its accepted readings)?"""
    cands = [(e[0], e[1])] + list(e[3])
    for k, ownerset in cands:
        if k == 'trailing-or-standalone':
            if kind == 'standalone' or (kind == 'trailing' and parent in ownerset):
                return True
        elif k == 'standalone':
            if kind == 'standalone':
                return True
        elif k == kind and (ownerset is None or parent in ownerset):
            return True
    return False


def adjacent_comment(root, m, side):
    """The block comment a manual claim_leading_comment / claim_trailing_comment of model m refers to: the comment on the line
    directly above the model's first line / directly below its last line (exactly one line break, same indentation class),
    or None. Derived from the visible tokens and the model's extent only."""
    d = vars(m)
    lc, tc = d.get('_leading_comment'), d.get('_trailing_comment')
    toks = [t for t in root.token_store if t.raw_text]
    pos = {id(t): i for i, t in enumerate(toks)}
    try:
        mt = [t for t in m.tokens if t.raw_text and t is not lc and t is not tc]
    except Exception:
        return 'unknown'
    while mt and isinstance(mt[0], walker.SPACING):
        mt.pop(0)
    while mt and isinstance(mt[-1], walker.SPACING):
        mt.pop()
    if not mt:
        return 'unknown'
    indented = '_indent' in d
    if side == 'trailing':
        i = pos[id(mt[-1])]
        while i + 1 < len(toks) and isinstance(toks[i + 1], models.Whitespace):
            i += 1          # trailing blanks before the line end
        if i + 2 < len(toks) + 0 and isinstance(toks[i + 1], models.Newline) and toks[i + 1].raw_text.count('\n') == 1 \
                and i + 2 < len(toks) and isinstance(toks[i + 2], models.BlockComment) and bool(toks[i + 2].indent) == indented:
            return toks[i + 2]
        return None
    i = pos[id(mt[0])]
    if i - 2 >= 0 and isinstance(toks[i - 1], models.Newline) and toks[i - 1].raw_text.count('\n') == 1 \
            and isinstance(toks[i - 2], models.BlockComment) and bool(toks[i - 2].indent) == indented:
        return toks[i - 2]
    return None
